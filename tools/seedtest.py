#!/usr/bin/env python3
"""Runs registered checks against a seeded change: applies /verif/seeded/<name>/patch.diff to /repo,
runs the quick tier of the given properties (default: the property the change targets), reverts.
   tools/seedtest.py <seeded-dir> [--tier quick|thorough] [PROPS...]
Development tool, not a registered check."""
import json, os, subprocess, sys, time
d = os.path.abspath(sys.argv[1])
args = sys.argv[2:]
tier = "quick"
if "--tier" in args:
    i = args.index("--tier"); tier = args[i + 1]; del args[i:i + 2]
meta = json.load(open(os.path.join(d, "meta.json")))
props = args or [meta["property"]]
st = subprocess.run(["git", "-C", "/repo", "status", "--porcelain"], capture_output=True, text=True).stdout.strip()
if st:
    sys.exit("/repo is not clean: " + st)
subprocess.check_call(["git", "-C", "/repo", "apply", os.path.join(d, "patch.diff")])
results = {}
try:
    for p in props:
        t0 = time.time()
        r = subprocess.run(["/verif/check", p, "--tier", tier], cwd="/verif", capture_output=True, text=True)
        viol = [l for l in r.stdout.splitlines() if l.startswith("VIOLATION")]
        reasons = [l for l in r.stderr.splitlines() if l.startswith("--- ") and "failed:" in l]
        results[p] = {"exit": r.returncode, "violations": viol, "reasons": [x[:300] for x in reasons[:3]], "wall_s": round(time.time() - t0, 1)}
        print(p, "exit", r.returncode, "|", (reasons[0][:220] if reasons else ""), flush=True)
finally:
    subprocess.check_call(["git", "-C", "/repo", "checkout", "--", "."])
out = os.path.join(d, "detection.json")
prev = json.load(open(out)) if os.path.exists(out) else {}
prev.setdefault(tier, {}).update(results)
json.dump(prev, open(out, "w"), indent=1)
