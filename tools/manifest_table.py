NOT_YET = {}
add("C02", "property-based testing: generated CertificateParams -> independent RFC 5280 decoder -> reference model; exhaustive sweeps of key-usage subsets, path lengths, CIDR prefixes",
    "Generated-input search (proptest, shrinking) over the whole CertificateParams space against a reference model evaluated on the output of an independent strict decoder; finite sub-spaces (511 KU subsets, 256 path lengths, 1536 prefix cases) are enumerated completely. Sampling elsewhere: absence of violations is not established.",
    "Trusts the harness decoder (own code, unit-tested), OpenSSL's SHA-2 and SPKI encoding of the fixture keys.",
    "DESIGN.md §4 C02")
DEC = "Trusts the harness decoder (own code, unit-tested, independent of rcgen/yasna/x509-parser)"
add("C01", "property-based testing with fault injection: generated artefacts x key algorithms x back ends; OpenSSL verifies the signature over the exact signed byte range; generated failure schedules for a remote signer",
    "Generated-input search over certificates, CSRs and CRLs for every key algorithm (local and remote) under ring and aws-lc-rs; the oracle is OpenSSL's verifier over the byte range cut out by an independent DER reader plus an RFC table of AlgorithmIdentifiers. Signer faults are enumerated as generated bitmasks over call sequences. Sampling: absence is not established.",
    DEC + "; OpenSSL EVP verification; fixture keys.", "DESIGN.md §4 C01")
add("C04", "property-based testing: generated artefacts walked by a strict schema-aware DER validator; exhaustive sweeps of key-usage subsets, INTEGER byte patterns, CSR attribute orderings",
    "Validity predicate (canonical DER per X.690 §10-11 and the RFC 5280 module) evaluated on generated certificates, CSRs, CRLs and SPKIs; value-dependent forms are enumerated exhaustively (511 KU subsets, 259 IsCa values, every 0/1-byte and boundary multi-byte INTEGER, 130 attribute orderings). Sampling elsewhere.",
    DEC + ".", "DESIGN.md §4 C04")
add("C05", "property-based testing: profile predicates over decoded artefacts; automatic serial explored over thousands of deterministically derived subject keys",
    "Predicates for each structural MUST evaluated on generated, profile-conformant parameter sets; the key-dependent automatic serial is explored over keys derived from generated seeds (both halves of the hash-top-bit class are measured).",
    DEC + "; OpenSSL EC arithmetic for deriving keys.", "DESIGN.md §4 C05")
add("C07", "property-based testing: generated CSR parameters and attribute lists -> independent RFC 2986 decoder -> reference model; exhaustive refusal sweep; round trip through rcgen's parser",
    "Reference-model comparison over generated CSRs, an exhaustive sweep of the 32 subsets of inexpressible fields (x IsCa variants x empty/non-empty name constraints), and a round-trip relation inside the parser's documented support.",
    DEC + ".", "DESIGN.md §4 C07")
add("C08", "property-based testing: generated CRL parameters -> independent decoder -> reference model; OpenSSL as revocation oracle; boundary-biased ordering pairs; exhaustive issuer key-usage sweep",
    "Reference-model comparison plus an independent revocation checker (OpenSSL) asked about listed and neighbouring unlisted serials; the two refusal rules are decided by generated boundary pairs and a complete sweep of the 512 issuer key-usage sets.",
    DEC + "; OpenSSL X509_CRL_get0_by_serial.", "DESIGN.md §4 C08")
add("C09", "property-based testing with metamorphic relation: generated (instant, nanosecond, offset) placed in all five time fields, parsed back strictly; boundary sweeps second by second",
    "Round trip through a strict time parser plus the metamorphic relation 'same instant at another offset gives identical bytes'; the neighbourhoods of the four boundaries are swept (every second x 41 offsets in thorough).",
    DEC + " and its civil-calendar arithmetic.", "DESIGN.md §4 C09")
