NOT_YET = {}
add("C02", "property-based testing: generated CertificateParams -> independent RFC 5280 decoder -> reference model; exhaustive sweeps of key-usage subsets, path lengths, CIDR prefixes",
    "Generated-input search (proptest, shrinking) over the whole CertificateParams space against a reference model evaluated on the output of an independent strict decoder; finite sub-spaces (511 KU subsets, 256 path lengths, 1536 prefix cases) are enumerated completely. Sampling elsewhere: absence of violations is not established.",
    "Trusts the harness decoder (own code, unit-tested), OpenSSL's SHA-2 and SPKI encoding of the fixture keys.",
    "DESIGN.md §4 C02")
DEC = "Trusts the harness decoder (own code, unit-tested, independent of rcgen/yasna/x509-parser)"
add("C01", "property-based testing with fault injection: generated artefacts x key algorithms x back ends; OpenSSL verifies the signature over the exact signed byte range; generated failure schedules for a remote signer",
    "Generated-input search over certificates, CSRs and CRLs for every key algorithm (local and remote) under ring and aws-lc-rs; the oracle is OpenSSL's verifier over the byte range cut out by an independent DER reader plus an RFC table of AlgorithmIdentifiers. Signer faults are enumerated as generated bitmasks over call sequences. Sampling: absence is not established.",
    DEC + "; OpenSSL EVP verification; fixture keys.", "DESIGN.md §4 C01")
add("C04", "property-based testing: generated artefacts walked by a strict schema-aware DER validator; exhaustive sweeps of key-usage subsets, INTEGER byte patterns, CSR attribute orderings",
    "Validity predicate (canonical DER per X.690 §10-11 and the RFC 5280 module) evaluated on generated certificates, CSRs, CRLs and SPKIs; value-dependent forms are enumerated exhaustively (511 KU subsets, 259 IsCa values, every 0/1-byte and boundary multi-byte INTEGER, 130 attribute orderings). Sampling elsewhere.",
    DEC + ".", "DESIGN.md §4 C04")
add("C05", "property-based testing: profile predicates over decoded artefacts; automatic serial explored over thousands of deterministically derived subject keys",
    "Predicates for each structural MUST evaluated on generated, profile-conformant parameter sets; the key-dependent automatic serial is explored over keys derived from generated seeds (both halves of the hash-top-bit class are measured).",
    DEC + "; OpenSSL EC arithmetic for deriving keys.", "DESIGN.md §4 C05")
add("C07", "property-based testing: generated CSR parameters and attribute lists -> independent RFC 2986 decoder -> reference model; exhaustive refusal sweep; round trip through rcgen's parser",
    "Reference-model comparison over generated CSRs, an exhaustive sweep of the 32 subsets of inexpressible fields (x IsCa variants x empty/non-empty name constraints), and a round-trip relation inside the parser's documented support.",
    DEC + ".", "DESIGN.md §4 C07")
add("C08", "property-based testing: generated CRL parameters -> independent decoder -> reference model; OpenSSL as revocation oracle; boundary-biased ordering pairs; exhaustive issuer key-usage sweep",
    "Reference-model comparison plus an independent revocation checker (OpenSSL) asked about listed and neighbouring unlisted serials; the two refusal rules are decided by generated boundary pairs and a complete sweep of the 512 issuer key-usage sets.",
    DEC + "; OpenSSL X509_CRL_get0_by_serial.", "DESIGN.md §4 C08")
add("C09", "property-based testing with metamorphic relation: generated (instant, nanosecond, offset) placed in all five time fields, parsed back strictly; boundary sweeps second by second",
    "Round trip through a strict time parser plus the metamorphic relation 'same instant at another offset gives identical bytes'; the neighbourhoods of the four boundaries are swept (every second x 41 offsets in thorough).",
    DEC + " and its civil-calendar arithmetic.", "DESIGN.md §4 C09")
add("C13", "exhaustive enumeration + property-based testing: every Unicode scalar value x 5 string types x 3 constructors against transcribed alphabet predicates; every UTF-16 / UTF-32 code unit for the byte-level constructors; random mixed strings; accepted values serialised and decoded back",
    "The one-character sub-space (5 x 1 112 064 values) and the single-unit sub-spaces of the byte-level constructors are enumerated completely; multi-character strings and unit sequences are sampled; accepted values round-trip through a certificate and an independent decoder.",
    DEC + "; the alphabet predicates are transcribed from the property text.", "DESIGN.md §4 C13")
add("C14", "property-based testing: generated artefacts of steered lengths -> strict independent RFC 7468 decoder must return the DER accessor's bytes; rcgen's and OpenSSL's PEM loaders as cross-checks",
    "Round trip through a strict decoder; a complete sweep of padding lengths covers every DER-length residue mod 3 and mod 48 for certificates, CSRs and CRLs; all fixture keys for the two key kinds.",
    "Trusts the harness's strict PEM/base64 decoder (unit-tested) and OpenSSL's PEM reader.", "DESIGN.md §4 C14")
add("C20", "model-based testing: operation sequences against a Vec reference model, bounded-exhaustive up to length 5/6 over 9 operations, random beyond",
    "Stateful model-based search: every push/remove sequence up to length 5 (quick) or 6 (thorough) over a 3-type x 2-value alphabet is enumerated and observed after each step; longer random histories over 12 types; the equality relation and the encoded order are checked too.",
    "The Vec model is the specification; " + DEC + " for the encoded order.", "DESIGN.md §4 C20")
add("C03", "property-based testing with differential validators: generated issuer names / key-id methods / origins (generated, re-imported, foreign CA forged and pre-accepted by OpenSSL) -> byte comparison of issuer vs subject Name, AKI vs SKI, OpenSSL and webpki path validation",
    "Generated-input search over issuer shapes, including foreign CA certificates with repeated attribute types and multi-valued RDNs; oracles are byte equality of raw Name ranges against the original issuer certificate and two independent path validators. Refused imports are allowed by the property and counted.",
    DEC + "; OpenSSL X509_verify_cert; webpki verify_for_usage; leaves generated inside what both support.", "DESIGN.md §4 C03")
add("C15", "property-based testing with metamorphic relations: repeated calls, generated prefix histories, multi-threaded runs sharing keys and issuer, and fresh child processes must all give identical to-be-signed bytes",
    "Metamorphic relation 'same inputs => same TBS bytes' under four perturbations (repetition, call history, concurrency with 2..16 threads, three fresh processes with different hash seeds); thread interleavings are sampled by repetition, not enumerated.",
    DEC + " for locating the signed byte range; the OS scheduler for interleavings.", "DESIGN.md §4 C15")
add("C17", "property-based testing: generated certificates and OpenSSL-accepted foreign CA certificates -> rcgen import -> field-by-field comparison with the generating parameters; PEM = DER; re-issue round trip",
    "Round trip parameters -> certificate -> import over the supported sub-space of C02 plus foreign CA certificates built by the harness encoder and pre-accepted by OpenSSL.",
    DEC + " and encoder; OpenSSL as gatekeeper for forged inputs.", "DESIGN.md §4 C17")
add("C06", "property-based testing and mutation fuzzing with an in-check oracle: rcgen-generated, OpenSSL-signed foreign and mutated CSRs; acceptance implies OpenSSL verifies the signature over the exact CRI bytes under the key rcgen reports; issued certificate binds the request's SPKI bytes",
    "Generated-input search over three sources of byte strings (generated, foreign incl. cross key/hash pairings, 16..48 structured mutations each) against a soundness oracle evaluated by OpenSSL and a binding oracle evaluated by the harness decoder; thorough adds a coverage-guided libFuzzer campaign with the same oracle.",
    DEC + " and encoder; OpenSSL EVP verification and X509_REQ parsing as gatekeeper for forged inputs.", "DESIGN.md §4 C06")
add("C11", "exhaustive enumeration + property-based testing: fixture keys x encodings x 9 loading entry points x requested algorithms (matching and mismatching); rcgen-generated keys saved and reloaded; OpenSSL as reference for SPKI bytes and signature verification",
    "The (key, encoding, entry point, requested algorithm) matrix over all fixture keys is enumerated completely under both back ends; freshly generated keys are sampled; identity is judged against OpenSSL's SPKI encoding and verifier; algorithm statics are compared pairwise exhaustively.",
    "OpenSSL key parsing, SPKI encoding and EVP verification; " + DEC + ".", "DESIGN.md §4 C11")
add("C12", "property-based testing with metamorphic pairs and differential validators: a generated chain that satisfies every constraint must be accepted, the same chain with exactly one dimension violated must be rejected, by OpenSSL and by webpki where its semantics cover the dimension",
    "Metamorphic pairs (baseline vs single violation) over generated chains of depth 2..4; the accept/reject verdict of two independent validators is the oracle, which ties every rejection to the one dimension that changed.",
    "OpenSSL X509_verify_cert (default flags, explicit time and purpose) and webpki verify_for_usage; each is asked only about dimensions its documented semantics cover.", "DESIGN.md §4 C12")
add("C19", "property-based testing with a validity predicate: every output channel and every reachable error text scanned for 16-byte windows of the secret key components in raw / hex / decimal-list / base64 form; error paths reached by generated PEM text edits, DER mutations and wrong-algorithm loads",
    "Generated artefacts and generated error paths (text edits of the key's PEM, mutations of its DER, every wrong algorithm x entry point) under both back ends; the oracle is a leak scanner over four renderings whose sensitivity is self-checked against the explicit export in every artefact case.",
    "A leak is defined as a contiguous >= 16-byte window of a secret component; " + DEC + " for extracting the components.", "DESIGN.md §4 C19")
add("C10", "mutation fuzzing + property-based testing with catch_unwind oracle: mutated valid artefacts and random bytes through every parsing entry point (and generation from whatever is accepted); full-domain generated parameters incl. oddities; recorded panic classes excluded by construction and confirmed in a side campaign; thorough adds coverage-guided libFuzzer targets",
    "Generated-input search for panics over every parsing entry point and every generation function; 88 % of parameter cases are clean (any panic is a violation), 12 % carry exactly one trigger of a recorded known-finding class (only the recorded panic is tolerated and reported as KNOWN-FINDING). Non-termination is handled by a watchdog (exit 2).",
    "catch_unwind observes every panic that unwinds; aborts would kill the harness (exit != 0/1, inconclusive).", "DESIGN.md §4 C10")
