NOT_YET = {}
add("C02", "property-based testing: generated CertificateParams -> independent RFC 5280 decoder -> reference model; exhaustive sweeps of key-usage subsets, path lengths, CIDR prefixes",
    "Generated-input search (proptest, shrinking) over the whole CertificateParams space against a reference model evaluated on the output of an independent strict decoder; finite sub-spaces (511 KU subsets, 256 path lengths, 1536 prefix cases) are enumerated completely. Sampling elsewhere: absence of violations is not established.",
    "Trusts the harness decoder (own code, unit-tested), OpenSSL's SHA-2 and SPKI encoding of the fixture keys.",
    "DESIGN.md §4 C02")
