#!/usr/bin/env python3
"""Regenerates /verif/MANIFEST.json from the table below (development tool)."""
import json, os, sys
ROOT = os.path.dirname(os.path.dirname(os.path.abspath(__file__)))

# id -> (technique, level text, level note, design ref)
CHECKS = {}
def add(pid, technique, text, note, ref):
    CHECKS[pid] = (technique, text, note, ref)

exec(open(os.path.join(ROOT, "tools", "manifest_table.py")).read())

ALL = [f"C{i:02d}" for i in range(1, 21)]
checks = []
for pid in ALL:
    if pid not in CHECKS:
        continue
    technique, text, note, ref = CHECKS[pid]
    checks.append({
        "property_id": pid,
        "quick_cmd": f"./check {pid} --tier quick",
        "thorough_cmd": f"./check {pid} --tier thorough",
        "evidence_file": f"/verif/evidence/{pid}.json",
        "replay_cmd_template": f"./check {pid} --replay {{path}}",
        "engine": "rv",
        "level_claimed": {"category": "exploration", "text": text, "design_ref": ref},
        "level_note": note,
        "technique": technique,
    })
na = [{"property_id": pid, "reason": NOT_YET.get(pid, "check not built yet in this revision of the framework")} for pid in ALL if pid not in CHECKS]
m = {
    "version": 1,
    "setup_cmd": "./check setup",
    "hooks": {
        "guard": "rustls_rcgen_verif",
        "enable": "none needed: every observation point is public API; the harness depends on /repo/rcgen by path, so checks rebuild from the working tree",
        "baseline_off_cmd": "cd /repo && cargo test --workspace --no-fail-fast --offline",
        "source_commits": [],
        "add_only": True,
    },
    "engines": [{
        "name": "rv",
        "path": "/verif/harness",
        "serves_properties": sorted(CHECKS),
        "kind_free_text": "Rust harness: proptest strategies over serialisable Spec types, sharded TestRunner, own strict DER/X.509 decoder, OpenSSL/webpki oracles; driven by /verif/check",
    }],
    "checks": checks,
    "not_applicable": na,
    "notes": "Property-based testing and fuzzing only. Known findings and repaired defects are listed in /verif/known_findings.json; DESIGN.md explains every check.",
}
json.dump(m, open(os.path.join(ROOT, "MANIFEST.json"), "w"), indent=1)
print("wrote MANIFEST.json with", len(checks), "checks;", len(na), "not claimed")
