#!/bin/bash
# tools/seedallN.sh <round> <id> <worktree> -> verify round-N changes in the scratch worktree, save under seeded/<id>-<round><v>, run the property's quick check
rnd=$1; id=$2; wt=$3
for v in A B; do d=/tmp/seed/out$rnd-$id/$v; [ -f $d/patch.diff ] || continue
 echo "=== $id-$rnd$v: $(python3 -c "import json;print(json.load(open('$d/meta.json'))['summary'][:150])")"
 python3 - <<PY
import json
p='$d/meta.json'; m=json.load(open(p)); m['demo_cmd']=m['demo_cmd'].split('   (')[0]; json.dump(m,open(p,'w'),indent=1)
PY
 r=$(tools/seedverify.sh $wt $d 2>&1 | grep -E "^RESULT|^suite" | tr '\n' ' '); echo "    verify: $r"
 case "$r" in *confirmed*) ;; *) continue;; esac
 s=seeded/$id-$rnd$v; mkdir -p $s; cp $d/patch.diff $d/meta.json $s/; cp $d/demo.* $s/ 2>/dev/null
[ -n "$SKIPTEST" ] || tools/seedtest.py $s $id 2>&1 | tail -1 | cut -c1-330 | sed 's/^/    /'
done
