#!/bin/bash
# Re-runs every seeded change against the quick tier of the property it targets (final machinery).
cd /verif
for d in seeded/*/; do
  id=$(python3 -c "import json;print(json.load(open('$d/meta.json'))['property'])")
  echo -n "$(basename $d) -> "
  tools/seedtest.py $d $id 2>&1 | tail -1 | cut -c1-160
done
