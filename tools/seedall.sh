#!/bin/bash
# tools/seedall.sh C03 [A B]  -> verify in scratch worktree, save under seeded/, run the property's quick check
id=$1; shift; vs=${@:-A B}
for v in $vs; do
  [ -f /tmp/seed/out-$id/$v/patch.diff ] || { echo "=== $id-$v: no patch"; continue; }
  echo "=== $id-$v: $(python3 -c "import json;print(json.load(open('/tmp/seed/out-$id/$v/meta.json'))['summary'][:160])")"
  r=$(tools/seedverify.sh /tmp/seed/$id /tmp/seed/out-$id/$v 2>&1 | grep -E "^RESULT|^suite" | tr '\n' ' ')
  echo "    verify: $r"
  case "$r" in *confirmed*) ;; *) continue;; esac
  d=seeded/$id-$v; mkdir -p $d; cp /tmp/seed/out-$id/$v/patch.diff /tmp/seed/out-$id/$v/meta.json $d/; cp /tmp/seed/out-$id/$v/demo.* $d/ 2>/dev/null
  tools/seedtest.py $d $id 2>&1 | tail -2 | cut -c1-400 | sed 's/^/    /'
done
