#!/usr/bin/env python3-vt
import json, sys, glob, jsonschema
ok = True
try:
    jsonschema.validate(json.load(open('/verif/MANIFEST.json')), json.load(open('/root/.vp/MANIFEST.schema.json')))
    print("MANIFEST.json valid")
except Exception as e:
    ok = False; print("MANIFEST invalid:", str(e)[:400])
es = json.load(open('/root/.vp/EVIDENCE.schema.json'))
for f in sorted(glob.glob('/verif/evidence/*.json')):
    try:
        jsonschema.validate(json.load(open(f)), es)
        d = json.load(open(f))
        print(f, "valid", d["coverage"]["evaluations"], d["coverage"]["distinct_nontrivial"], d.get("wall_s"))
    except Exception as e:
        ok = False; print(f, "INVALID:", str(e)[:300])
sys.exit(0 if ok else 1)
