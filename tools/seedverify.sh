#!/bin/bash
# Confirms a seeded change in a scratch worktree: applies cleanly, compiles in three configurations,
# existing suite passes with it, demo fails with it and passes without it.
#   tools/seedverify.sh <worktree> <dir-with-patch.diff-demo-meta>
set -u
WT="$1"; D="$2"
cd "$WT" || exit 2
git checkout -q -- . ; rm -f rcgen/tests/seed_demo.rs
git apply --check "$D/patch.diff" || { echo "RESULT patch-does-not-apply"; exit 1; }
git apply "$D/patch.diff"
if git diff --name-only | grep -qv '^\(rcgen\|rustls-cert-gen\)/src/'; then echo "RESULT patch-touches-non-source"; git checkout -q -- .; exit 1; fi
export CARGO_NET_OFFLINE=true
for cfg in "" "--features x509-parser" "--no-default-features --features aws_lc_rs,pem,x509-parser"; do
  cargo check -q -p rcgen --offline $cfg 2>/dev/null || { echo "RESULT does-not-compile [$cfg]"; git checkout -q -- .; exit 1; }
done
SUITE=$(cargo test --workspace --no-fail-fast --offline 2>&1 | grep -E "^test result" | awk '{p+=$4; f+=$6} END {print p" passed "f" failed"}')
echo "suite with patch: $SUITE"
case "$SUITE" in *" 0 failed") ;; *) echo "RESULT suite-fails-with-patch"; git checkout -q -- .; exit 1;; esac
DEMO_CMD=$(python3 -c "import json,sys; print(json.load(open('$D/meta.json'))['demo_cmd'])")
if [ -f "$D/demo.rs" ]; then cp "$D/demo.rs" rcgen/tests/seed_demo.rs; cp "$D/demo.rs" ./demo.rs; fi
if [ -f "$D/demo.sh" ]; then cp "$D/demo.sh" ./demo.sh; chmod +x demo.sh; fi
echo "demo cmd: $DEMO_CMD"
( eval "$DEMO_CMD" ) >/tmp/seed/demo-with.log 2>&1; WITH=$?
git checkout -q -- .
if [ -f "$D/demo.rs" ]; then cp "$D/demo.rs" rcgen/tests/seed_demo.rs; fi
( eval "$DEMO_CMD" ) >/tmp/seed/demo-without.log 2>&1; WITHOUT=$?
rm -f rcgen/tests/seed_demo.rs demo.sh demo.rs
echo "demo exit with patch: $WITH, without: $WITHOUT"
if [ $WITH -ne 0 ] && [ $WITHOUT -eq 0 ]; then echo "RESULT confirmed"; exit 0; fi
echo "RESULT demo-does-not-discriminate"; tail -5 /tmp/seed/demo-with.log; tail -5 /tmp/seed/demo-without.log; exit 1
