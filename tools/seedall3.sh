#!/bin/bash
# tools/seedall3.sh <id> <worktree> -> verify round-3 changes in the scratch worktree, save under seeded/<id>-3<v>, run the property's quick check
id=$1; wt=$2
for v in A B; do d=/tmp/seed/out3-$id/$v; [ -f $d/patch.diff ] || continue
 echo "=== $id-3$v: $(python3 -c "import json;print(json.load(open('$d/meta.json'))['summary'][:150])")"
 python3 - <<PY
import json
p='$d/meta.json'; m=json.load(open(p)); m['demo_cmd']=m['demo_cmd'].split('   (')[0]; json.dump(m,open(p,'w'),indent=1)
PY
 r=$(tools/seedverify.sh $wt $d 2>&1 | grep -E "^RESULT|^suite" | tr '\n' ' '); echo "    verify: $r"
 case "$r" in *confirmed*) ;; *) continue;; esac
 s=seeded/$id-3$v; mkdir -p $s; cp $d/patch.diff $d/meta.json $s/; cp $d/demo.* $s/ 2>/dev/null
 tools/seedtest.py $s $id 2>&1 | tail -1 | cut -c1-330 | sed 's/^/    /'
done
