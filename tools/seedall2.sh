#!/bin/bash
# tools/seedall2.sh C11 -> verify round-2 changes in the scratch worktree, save under seeded/<id>-2<v>, run the property's quick check
id=$1
for v in A B; do d=/tmp/seed/out2-$id/$v; [ -f $d/patch.diff ] || continue
 echo "=== $id-2$v: $(python3 -c "import json;print(json.load(open('$d/meta.json'))['summary'][:150])")"
 python3 - <<PY
import json
p='$d/meta.json'; m=json.load(open(p)); m['demo_cmd']=m['demo_cmd'].split('   (')[0]; json.dump(m,open(p,'w'),indent=1)
PY
 r=$(tools/seedverify.sh /tmp/seed/$id $d 2>&1 | grep -E "^RESULT|^suite" | tr '\n' ' '); echo "    verify: $r"
 case "$r" in *confirmed*) ;; *) continue;; esac
 s=seeded/$id-2$v; mkdir -p $s; cp $d/patch.diff $d/meta.json $s/; cp $d/demo.* $s/ 2>/dev/null
 tools/seedtest.py $s $id 2>&1 | tail -1 | cut -c1-330 | sed 's/^/    /'
done
