//! C19 — private key material never leaks into public outputs or diagnostics.
#![cfg(feature = "crypto")]

use std::collections::HashSet;

use proptest::prelude::*;
use serde::{Deserialize, Serialize};

use crate::der::{self, Lints};
use crate::gen::{self, CertGenOpts};
use crate::keys;
use crate::pemstrict;
use crate::props::c11::{algos, Entry, ENTRIES};
use crate::props::common::*;
use crate::runner::*;
use crate::spec::*;

const WINDOW: usize = 16;

/// Secret components of a PKCS#8 private key: EC scalar, Ed25519 seed, RSA d, p, q, dP, dQ, qInv.
pub fn secrets_of(pk8: &[u8]) -> Result<Vec<Vec<u8>>, String> {
	let l = Lints::new();
	let outer = der::read_single(pk8, &l, "PrivateKeyInfo")?;
	let parts = der::expect_seq(&outer, &l, "PrivateKeyInfo")?;
	if parts.len() < 3 {
		return Err("PrivateKeyInfo too short".into());
	}
	let alg = der::expect_seq(&parts[1], &l, "privateKeyAlgorithm")?;
	let oid = der::oid(&alg[0], &l, "algorithm")?;
	let inner = der::octet_string(&parts[2], "privateKey")?;
	let strip = |b: &[u8]| {
		let mut i = 0;
		while i + 1 < b.len() && b[i] == 0 {
			i += 1;
		}
		b[i..].to_vec()
	};
	if oid == [1, 3, 101, 112] {
		let t = der::read_single(inner, &l, "CurvePrivateKey")?;
		return Ok(vec![der::octet_string(&t, "seed")?.to_vec()]);
	}
	if oid == [1, 2, 840, 10045, 2, 1] {
		let t = der::read_single(inner, &l, "ECPrivateKey")?;
		let p = der::expect_seq(&t, &l, "ECPrivateKey")?;
		return Ok(vec![der::octet_string(&p[1], "scalar")?.to_vec()]);
	}
	if oid == [1, 2, 840, 113549, 1, 1, 1] {
		let t = der::read_single(inner, &l, "RSAPrivateKey")?;
		let p = der::expect_seq(&t, &l, "RSAPrivateKey")?;
		let mut v = Vec::new();
		for i in 3..9 {
			v.push(strip(der::integer_bytes(&p[i], &l, "rsa component")?));
		}
		return Ok(v);
	}
	Err(format!("unknown key type {:?}", oid))
}

pub struct Scanner {
	windows: HashSet<Vec<u8>>,
}

impl Scanner {
	pub fn new(secrets: &[Vec<u8>]) -> Scanner {
		let mut windows = HashSet::new();
		for s in secrets {
			let w = WINDOW.min(s.len());
			if w < 8 {
				continue;
			}
			for c in s.windows(w) {
				windows.insert(c.to_vec());
			}
		}
		Scanner { windows }
	}

	fn hit(&self, bytes: &[u8]) -> bool {
		if bytes.len() < 8 {
			return false;
		}
		for w in [WINDOW, 32.min(WINDOW)] {
			if bytes.len() >= w && bytes.windows(w).any(|c| self.windows.contains(c)) {
				return true;
			}
		}
		false
	}

	/// Scans a byte string (binary artefact or text) in four renderings.
	pub fn scan(&self, hay: &[u8]) -> Option<&'static str> {
		if self.hit(hay) {
			return Some("raw bytes");
		}
		// hexadecimal runs (either case; ':' ' ' ',' '-' and "0x" separators tolerated)
		let mut run: Vec<u8> = Vec::new();
		let mut nibble: Option<u8> = None;
		let flush_hex = |run: &mut Vec<u8>| -> bool {
			let r = self.hit(run);
			run.clear();
			r
		};
		let mut i = 0;
		while i < hay.len() {
			let c = hay[i];
			let v = match c {
				b'0'..=b'9' => Some(c - b'0'),
				b'a'..=b'f' => Some(c - b'a' + 10),
				b'A'..=b'F' => Some(c - b'A' + 10),
				_ => None,
			};
			match v {
				Some(v) => {
					if c == b'0' && hay.get(i + 1) == Some(&b'x') && nibble.is_none() {
						i += 2;
						continue;
					}
					match nibble.take() {
						Some(h) => run.push(h << 4 | v),
						None => nibble = Some(v),
					}
				},
				None => {
					if matches!(c, b':' | b' ' | b',' | b'-') && nibble.is_none() {
						// separator between bytes: keep the run
					} else {
						nibble = None;
						if flush_hex(&mut run) {
							return Some("hexadecimal");
						}
					}
				},
			}
			i += 1;
		}
		if flush_hex(&mut run) {
			return Some("hexadecimal");
		}
		// decimal lists: [12, 255, 7, ...]
		let mut list: Vec<u8> = Vec::new();
		let mut cur: Option<u32> = None;
		let mut digits = 0;
		for &c in hay.iter().chain(std::iter::once(&b'!')) {
			match c {
				b'0'..=b'9' => {
					cur = Some(cur.unwrap_or(0).saturating_mul(10).saturating_add((c - b'0') as u32));
					digits += 1;
				},
				b',' | b' ' | b'\n' | b'\t' | b'[' | b']' => {
					if let Some(v) = cur.take() {
						if v <= 255 && digits <= 3 {
							list.push(v as u8);
						} else {
							if self.hit(&list) {
								return Some("decimal list");
							}
							list.clear();
						}
					}
					digits = 0;
				},
				_ => {
					if let Some(v) = cur.take() {
						if v <= 255 && digits <= 3 {
							list.push(v as u8);
						}
					}
					digits = 0;
					if self.hit(&list) {
						return Some("decimal list");
					}
					list.clear();
				},
			}
		}
		// base64 runs (newlines inside a run are skipped), decoded at all four alignments
		let mut b64: Vec<u8> = Vec::new();
		let check_b64 = |b64: &Vec<u8>| -> bool {
			if b64.len() < 12 {
				return false;
			}
			for skip in 0..4 {
				let s = &b64[skip.min(b64.len())..];
				let n = s.len() / 4 * 4;
				let mut out = Vec::with_capacity(n / 4 * 3);
				for q in s[..n].chunks(4) {
					let mut v = 0u32;
					for &c in q {
						let x = match c {
							b'A'..=b'Z' => c - b'A',
							b'a'..=b'z' => c - b'a' + 26,
							b'0'..=b'9' => c - b'0' + 52,
							b'+' | b'-' => 62,
							_ => 63,
						};
						v = v << 6 | x as u32;
					}
					out.extend_from_slice(&[(v >> 16) as u8, (v >> 8) as u8, v as u8]);
				}
				if self.hit(&out) {
					return true;
				}
			}
			false
		};
		for &c in hay.iter().chain(std::iter::once(&b'!')) {
			match c {
				b'A'..=b'Z' | b'a'..=b'z' | b'0'..=b'9' | b'+' | b'/' | b'-' | b'_' => b64.push(c),
				b'\n' | b'\r' | b'=' => {},
				_ => {
					if check_b64(&b64) {
						return Some("base64");
					}
					b64.clear();
				},
			}
		}
		None
	}
}

fn scan_all(sc: &Scanner, outputs: &[(&str, Vec<u8>)]) -> Result<(), String> {
	for (name, bytes) in outputs {
		if let Some(form) = sc.scan(bytes) {
			let shown = String::from_utf8_lossy(&bytes[..bytes.len().min(300)]).to_string();
			return Err(format!("private key material appears in {name} in {form} form: {shown:?}"));
		}
	}
	Ok(())
}

#[derive(Clone, Debug, Serialize, Deserialize, PartialEq, Eq, Hash)]
pub struct ArtefactCase {
	pub key: KeySpec,
	pub cert: CertCase,
	pub csr: CsrCase,
	pub crl: CrlCase,
}

pub fn check_artefacts(a: &ArtefactCase, info: &mut CaseInfo) -> Result<(), String> {
	let mut key = a.key;
	key.remote = false;
	let fx = keys::fixture(&key);
	let sc = Scanner::new(&secrets_of(&fx.pk8)?);
	info.nontrivial = true;
	info.class(format!("key:{:?}", key.alg));
	// the key under test signs / is the subject everywhere
	let mut cert = a.cert.clone();
	cert.key = key;
	if let Some(i) = cert.issuer.as_mut() {
		i.key = key;
	}
	let mut csr = a.csr.clone();
	csr.key = key;
	let mut crl = a.crl.clone();
	crl.issuer.key = key;
	let built = build_cert(&cert)?;
	let (csr_obj, kp) = build_csr(&csr)?;
	let crl_obj = build_crl(&crl)?.map_err(|e| e.to_string())?;
	let mut outputs: Vec<(&str, Vec<u8>)> = vec![
		("Certificate::der", built.cert.der().to_vec()),
		("Certificate::pem", built.cert.pem().into_bytes()),
		("Debug of Certificate", format!("{:?}", built.cert).into_bytes()),
		("Debug of CertificateParams", format!("{:?}", built.cert.params()).into_bytes()),
		("CSR der", csr_obj.der().to_vec()),
		("CSR pem", csr_obj.pem().unwrap_or_default().into_bytes()),
		("Debug of CertificateSigningRequest", format!("{:?}", csr_obj).into_bytes()),
		("CRL der", crl_obj.crl.der().to_vec()),
		("CRL pem", crl_obj.crl.pem().unwrap_or_default().into_bytes()),
		("Debug of CertificateRevocationList", format!("{:?}", crl_obj.crl).into_bytes()),
		("KeyPair::public_key_der", kp.public_key_der()),
		("KeyPair::public_key_pem", kp.public_key_pem().into_bytes()),
		("KeyPair::public_key_raw", kp.public_key_raw().to_vec()),
		("Debug of KeyPair", format!("{:?}", kp).into_bytes()),
		("Debug of KeyPair (alternate)", format!("{:#?}", kp).into_bytes()),
		("Debug of SignatureAlgorithm", format!("{:?}", kp.algorithm()).into_bytes()),
	];
	if let Ok(p) = rcgen::CertificateSigningRequestParams::from_der(csr_obj.der()) {
		outputs.push(("Debug of CertificateSigningRequestParams", format!("{:?}", p).into_bytes()));
	}
	if let Ok(s) = rcgen::SubjectPublicKeyInfo::from_der(&kp.public_key_der()) {
		outputs.push(("Debug of SubjectPublicKeyInfo", format!("{:?}", s).into_bytes()));
	}
	if let Some(ik) = &built.issuer_key {
		outputs.push(("Debug of issuer KeyPair", format!("{:?}", ik).into_bytes()));
	}
	scan_all(&sc, &outputs)?;
	// the scanner itself must see the key in the explicit export (sanity: it is not blind)
	if sc.scan(&kp.serialize_der()).is_none() || sc.scan(kp.serialize_pem().as_bytes()).is_none() {
		return Err("INTERNAL: the scanner does not find the key in its own explicit export".into());
	}
	Ok(())
}

#[derive(Clone, Debug, Serialize, Deserialize, PartialEq, Eq, Hash)]
pub enum TextOp {
	DeleteLine(u8),
	DuplicateLine(u8),
	BlankLineAfter(u8),
	SpaceLineAfter(u8),
	ChangeLabel(u8),
	AddHeader(u8),
	Truncate(u16),
	ReplaceChar(u16, u8),
	Crlf,
	JoinLines,
	PrependGarbage(u8),
	DropEnd,
}

#[derive(Clone, Debug, Serialize, Deserialize, PartialEq, Eq, Hash)]
pub struct ErrorPathCase {
	pub key: KeySpec,
	pub legacy: bool,
	pub ops: Vec<TextOp>,
	pub der_mutations: Vec<crate::props::c06::Mutation>,
}

fn apply_text_op(text: &str, op: &TextOp) -> String {
	let mut lines: Vec<String> = text.lines().map(|s| s.to_string()).collect();
	if lines.is_empty() {
		lines.push(String::new());
	}
	let n = lines.len();
	match op {
		TextOp::DeleteLine(i) => {
			lines.remove(*i as usize % n);
		},
		TextOp::DuplicateLine(i) => {
			let l = lines[*i as usize % n].clone();
			lines.insert(*i as usize % n, l);
		},
		TextOp::BlankLineAfter(i) => lines.insert(*i as usize % n + 1, String::new()),
		TextOp::SpaceLineAfter(i) => lines.insert(*i as usize % n + 1, " ".into()),
		TextOp::ChangeLabel(k) => {
			let labels = ["CERTIFICATE", "RSA PRIVATE KEY", "EC PRIVATE KEY", "PUBLIC KEY", "ENCRYPTED PRIVATE KEY", "X509 CRL", "CERTIFICATE REQUEST", ""];
			let l = labels[*k as usize % labels.len()];
			let last = lines.len() - 1;
			lines[0] = format!("-----BEGIN {l}-----");
			if k % 2 == 0 {
				lines[last] = format!("-----END {l}-----");
			}
		},
		TextOp::AddHeader(k) => {
			let headers = ["Proc-Type: 4,ENCRYPTED", "DEK-Info: AES-128-CBC,00", "Comment: x", "X: y", ":"];
			lines.insert(1, headers[*k as usize % headers.len()].into());
			if k % 2 == 0 {
				lines.insert(2, String::new());
			}
		},
		TextOp::Truncate(p) => {
			let t = lines.join("\n");
			let cut = (*p as usize * t.len()) >> 16;
			return t[..cut].to_string();
		},
		TextOp::ReplaceChar(p, c) => {
			let mut t = lines.join("\n").into_bytes();
			if !t.is_empty() {
				let i = (*p as usize * t.len()) >> 16;
				t[i] = b" \t=-!#ABab09+/\n"[*c as usize % 15];
			}
			return String::from_utf8_lossy(&t).to_string();
		},
		TextOp::Crlf => return lines.join("\r\n") + "\r\n",
		TextOp::JoinLines => return lines.join(""),
		TextOp::PrependGarbage(k) => lines.insert(0, ["garbage", "-----BEGIN", "-----END PRIVATE KEY-----", "MIGH"][*k as usize % 4].into()),
		TextOp::DropEnd => {
			lines.pop();
		},
	}
	lines.join("\n") + "\n"
}

fn text_op() -> impl Strategy<Value = TextOp> {
	prop_oneof![
		any::<u8>().prop_map(TextOp::DeleteLine),
		any::<u8>().prop_map(TextOp::DuplicateLine),
		any::<u8>().prop_map(TextOp::BlankLineAfter),
		any::<u8>().prop_map(TextOp::SpaceLineAfter),
		any::<u8>().prop_map(TextOp::ChangeLabel),
		any::<u8>().prop_map(TextOp::AddHeader),
		any::<u16>().prop_map(TextOp::Truncate),
		(any::<u16>(), any::<u8>()).prop_map(|(p, c)| TextOp::ReplaceChar(p, c)),
		Just(TextOp::Crlf),
		Just(TextOp::JoinLines),
		any::<u8>().prop_map(TextOp::PrependGarbage),
		Just(TextOp::DropEnd),
	]
}

fn scan_error(sc: &Scanner, what: &str, e: &rcgen::Error) -> Result<(), String> {
	scan_all(sc, &[(what, format!("{e}").into_bytes()), (what, format!("{e:?}").into_bytes())])
}

pub fn check_error_paths(c: &ErrorPathCase, info: &mut CaseInfo) -> Result<(), String> {
	let mut key = c.key;
	key.remote = false;
	let fx = keys::fixture(&key);
	let sc = Scanner::new(&secrets_of(&fx.pk8)?);
	let is_rsa = key.is_rsa();
	let (der, label): (&[u8], &str) = match (&fx.legacy, c.legacy) {
		(Some(l), true) => (l, if is_rsa { "RSA PRIVATE KEY" } else { "EC PRIVATE KEY" }),
		_ => (&fx.pk8, "PRIVATE KEY"),
	};
	info.class(format!("key:{:?}", key.alg));
	let algos = algos();
	let mut n_err = 0u64;

	// 1. the intact key under every algorithm through every explicit entry point (wrong ones fail)
	for entry in ENTRIES {
		for (aname, alg) in &algos {
			let r = no_panic(|| load_any(entry, der, label, alg));
			if let Ok(Err(e)) = &r {
				n_err += 1;
				scan_error(&sc, &format!("the error of loading the key through {entry:?} as {aname}"), e)?;
			}
			if !entry.explicit() {
				break;
			}
		}
	}
	// 2. mutated DER
	let regions = [(0, der.len()), (0, der.len()), (der.len() / 2, der.len()), (0, der.len().min(30))];
	for m in &c.der_mutations {
		let mutant = crate::props::c06::apply_mutation(der, m, &regions);
		for entry in [Entry::TryFromSlice, Entry::Pkcs8DerAlgo, Entry::DerAlgo] {
			let alg = algos[m.val as usize % algos.len()].1;
			if let Ok(Err(e)) = no_panic(|| load_any(entry, &mutant, label, alg)) {
				n_err += 1;
				scan_error(&sc, &format!("the error of loading a mutated key DER through {entry:?}"), &e)?;
			}
		}
	}
	// 3. mutated PEM text through every PEM loader, and through the PEM parsers for other things
	let mut text = pemstrict::encode(label, der);
	for op in &c.ops {
		text = apply_text_op(&text, op);
		info.class(format!("text-op:{}", format!("{op:?}").split('(').next().unwrap_or("")));
	}
	let alg = algos[c.ops.len() % algos.len()].1;
	let mut results: Vec<(&str, Option<rcgen::Error>)> = Vec::new();
	let t = text.clone();
	results.push(("KeyPair::from_pem", no_panic(|| rcgen::KeyPair::from_pem(&t)).ok().and_then(|r| r.err())));
	results.push(("KeyPair::from_pkcs8_pem_and_sign_algo", no_panic(|| rcgen::KeyPair::from_pkcs8_pem_and_sign_algo(&t, alg)).ok().and_then(|r| r.err())));
	results.push(("KeyPair::from_pem_and_sign_algo", no_panic(|| rcgen::KeyPair::from_pem_and_sign_algo(&t, alg)).ok().and_then(|r| r.err())));
	results.push(("CertificateParams::from_ca_cert_pem", no_panic(|| rcgen::CertificateParams::from_ca_cert_pem(&t)).ok().and_then(|r| r.err())));
	results.push(("CertificateSigningRequestParams::from_pem", no_panic(|| rcgen::CertificateSigningRequestParams::from_pem(&t)).ok().and_then(|r| r.err())));
	// a parser that takes the private-key text for something public hands back an object: what that
	// object shows (and what is issued from it) is public output
	match no_panic(|| rcgen::SubjectPublicKeyInfo::from_pem(&t)) {
		Ok(Ok(spki)) => {
			info.class("key-text-accepted-as-public-key");
			use rcgen::PublicKeyData;
			let mut outs: Vec<(&str, Vec<u8>)> = vec![
				("Debug of a SubjectPublicKeyInfo parsed from the private-key text", format!("{spki:?}").into_bytes()),
				("der_bytes() of a SubjectPublicKeyInfo parsed from the private-key text", spki.der_bytes().to_vec()),
			];
			let ik = keys::make_key(&KeySpec { alg: KeyAlg::Ed25519, idx: 1, rsa_hash: RsaHash::Sha256, remote: !cfg!(feature = "crypto") })?;
			let mut ispec = CertSpec::minimal();
			ispec.is_ca = IsCaSpec::CaUnconstrained;
			if let Ok(ic) = crate::mk::cert_params(&ispec)?.self_signed(&ik) {
				if let Ok(Ok(c)) = no_panic(|| crate::mk::cert_params(&CertSpec::minimal()).unwrap().signed_by(&spki, &ic, &ik)) {
					outs.push(("a certificate issued for a SubjectPublicKeyInfo parsed from the private-key text", c.der().to_vec()));
				}
			}
			scan_all(&sc, &outs)?;
			results.push(("SubjectPublicKeyInfo::from_pem", None));
		},
		r => results.push(("SubjectPublicKeyInfo::from_pem", r.ok().and_then(|r| r.err()))),
	}
	if let Ok(Ok(p)) = no_panic(|| rcgen::CertificateParams::from_ca_cert_pem(&t)) {
		scan_all(&sc, &[("Debug of CertificateParams imported from the private-key text", format!("{p:?}").into_bytes())])?;
	}
	if let Ok(Ok(p)) = no_panic(|| rcgen::CertificateSigningRequestParams::from_pem(&t)) {
		scan_all(&sc, &[("Debug of CertificateSigningRequestParams parsed from the private-key text", format!("{p:?}").into_bytes())])?;
	}
	// bundles as they occur on disk: the key text before / after a certificate or a request
	{
		let ck = keys::make_key(&KeySpec { alg: KeyAlg::Ed25519, idx: 1, rsa_hash: RsaHash::Sha256, remote: !cfg!(feature = "crypto") })?;
		let mut spec = CertSpec::minimal();
		spec.is_ca = IsCaSpec::CaUnconstrained;
		let cert_pem = crate::mk::cert_params(&spec)?.self_signed(&ck).map_err(|e| e.to_string())?.pem();
		let mut cs = CertSpec::minimal();
		cs.serial = None;
		let csr_pem = crate::mk::cert_params(&cs)?.serialize_request(&ck).map_err(|e| e.to_string())?.pem().map_err(|e| e.to_string())?;
		for (what, bundle) in [
			("key + certificate", format!("{text}{cert_pem}")),
			("certificate + key", format!("{cert_pem}{text}")),
			("key + request", format!("{text}{csr_pem}")),
			("request + key", format!("{csr_pem}{text}")),
		] {
			let b = bundle.clone();
			results.push((what, no_panic(|| rcgen::CertificateParams::from_ca_cert_pem(&b)).ok().and_then(|r| r.err())));
			let b = bundle.clone();
			results.push((what, no_panic(|| rcgen::CertificateSigningRequestParams::from_pem(&b)).ok().and_then(|r| r.err())));
			let b = bundle.clone();
			results.push((what, no_panic(|| rcgen::KeyPair::from_pem(&b)).ok().and_then(|r| r.err())));
			let b = bundle.clone();
			results.push((what, no_panic(|| rcgen::SubjectPublicKeyInfo::from_pem(&b)).ok().and_then(|r| r.err())));
		}
	}
	for (name, e) in results {
		if let Some(e) = e {
			n_err += 1;
			scan_error(&sc, &format!("the error {name} returns for a (modified) private-key PEM text"), &e)?;
		}
	}
	// 4. the key's DER fed to the DER parsers for other things
	let d = der.to_vec();
	if let Ok(Err(e)) = no_panic(|| rcgen::CertificateParams::from_ca_cert_der(&d.clone().into())) {
		n_err += 1;
		scan_error(&sc, "the error from_ca_cert_der returns for a private key", &e)?;
	}
	if let Ok(Err(e)) = no_panic(|| rcgen::CertificateSigningRequestParams::from_der(&d.clone().into())) {
		n_err += 1;
		scan_error(&sc, "the error CSR from_der returns for a private key", &e)?;
	}
	if let Ok(Err(e)) = no_panic(|| rcgen::SubjectPublicKeyInfo::from_der(&d)) {
		n_err += 1;
		scan_error(&sc, "the error SubjectPublicKeyInfo::from_der returns for a private key", &e)?;
	}
	info.nontrivial = n_err > 0;
	info.weight = n_err.max(1);
	Ok(())
}

fn load_any(entry: Entry, der: &[u8], label: &str, alg: &'static rcgen::SignatureAlgorithm) -> Result<rcgen::KeyPair, rcgen::Error> {
	use pki_types::{PrivateKeyDer, PrivatePkcs8KeyDer};
	match entry {
		Entry::TryFromSlice => rcgen::KeyPair::try_from(der),
		Entry::TryFromVec => rcgen::KeyPair::try_from(der.to_vec()),
		Entry::TryFromPrivateKeyDer => match PrivateKeyDer::try_from(der.to_vec()) {
			Ok(k) => rcgen::KeyPair::try_from(&k),
			Err(_) => Err(rcgen::Error::CouldNotParseKeyPair),
		},
		Entry::TryFromPkcs8Der => rcgen::KeyPair::try_from(&PrivatePkcs8KeyDer::from(der.to_vec())),
		Entry::FromPem => rcgen::KeyPair::from_pem(&pemstrict::encode(label, der)),
		Entry::Pkcs8DerAlgo => rcgen::KeyPair::from_pkcs8_der_and_sign_algo(&PrivatePkcs8KeyDer::from(der.to_vec()), alg),
		Entry::DerAlgo => match PrivateKeyDer::try_from(der.to_vec()) {
			Ok(k) => rcgen::KeyPair::from_der_and_sign_algo(&k, alg),
			Err(_) => Err(rcgen::Error::CouldNotParseKeyPair),
		},
		Entry::Pkcs8PemAlgo => rcgen::KeyPair::from_pkcs8_pem_and_sign_algo(&pemstrict::encode(label, der), alg),
		Entry::PemAlgo => rcgen::KeyPair::from_pem_and_sign_algo(&pemstrict::encode(label, der), alg),
	}
}

fn local_key() -> BoxedStrategy<KeySpec> {
	gen::key_spec().prop_map(|mut k| {
		k.remote = false;
		k
	}).boxed()
}

// ---------------------------------------------------------------------------------------------
// The command line tool holds freshly generated keys while it writes its files: when writing fails,
// what it prints must not contain them.

#[derive(Clone, Debug, Serialize, Deserialize, PartialEq, Eq, Hash)]
pub struct CliFailCase {
	pub build: String,
	pub alg: Option<String>,
	/// 0..=3: a directory sits where the end-entity certificate / end-entity key / CA certificate /
	/// CA key file should go; 4: --output names a regular file; 5: no obstruction but an invalid
	/// --country-name; 6: a non-ASCII --san
	pub obstruction: u8,
	pub cert_name: Option<String>,
	pub ca_name: Option<String>,
}

/// Base64 runs (also inside Debug-escaped text) that decode to something OpenSSL or the PKCS#8
/// reader takes for a private key.
fn private_keys_in_text(text: &str) -> Vec<Vec<u8>> {
	let text = text.replace("\\n", "\n").replace("\\r", "\n");
	let mut runs: Vec<String> = Vec::new();
	let mut cur = String::new();
	for line in text.lines() {
		let t = line.trim();
		let is_b64 = !t.is_empty() && t.bytes().all(|b| b.is_ascii_alphanumeric() || b == b'+' || b == b'/' || b == b'=');
		if is_b64 {
			cur.push_str(t);
		} else {
			if !cur.is_empty() {
				runs.push(std::mem::take(&mut cur));
			}
			// base64 embedded in a longer line
			for tok in t.split(|c: char| !(c.is_ascii_alphanumeric() || c == '+' || c == '/' || c == '=')) {
				if tok.len() >= 44 {
					runs.push(tok.to_string());
				}
			}
		}
	}
	if !cur.is_empty() {
		runs.push(cur);
	}
	let mut found = Vec::new();
	for r in runs {
		if r.len() < 44 {
			continue;
		}
		if let Ok(der) = openssl::base64::decode_block(&r) {
			let _ = openssl::error::ErrorStack::get();
			if secrets_of(&der).map_or(false, |s| !s.is_empty()) || openssl::pkey::PKey::private_key_from_der(&der).is_ok() {
				found.push(der);
			}
			let _ = openssl::error::ErrorStack::get();
		}
	}
	found
}

pub fn check_cli_failure(c: &CliFailCase, info: &mut CaseInfo) -> Result<(), String> {
	use std::sync::atomic::{AtomicU64, Ordering};
	static COUNTER: AtomicU64 = AtomicU64::new(0);
	let exe = crate::props::c18::cli_path(&c.build);
	if !std::path::Path::new(&exe).exists() {
		return Err(format!("INTERNAL: CLI binary {exe} has not been built"));
	}
	let scratch = std::path::PathBuf::from(format!("{}/out/tmp/c19-{}-{}", keys::verif_root(), std::process::id(), COUNTER.fetch_add(1, Ordering::SeqCst)));
	let _ = std::fs::remove_dir_all(&scratch);
	let out_dir = scratch.join("out");
	std::fs::create_dir_all(&out_dir).map_err(|e| format!("INTERNAL: scratch dir: {e}"))?;
	let ee = c.cert_name.clone().unwrap_or_else(|| "cert".into());
	let ca = c.ca_name.clone().unwrap_or_else(|| "root-ca".into());
	let mut cmd = std::process::Command::new(&exe);
	let internal = |e: std::io::Error| format!("INTERNAL: {e}");
	match c.obstruction % 7 {
		0 => std::fs::create_dir_all(out_dir.join(format!("{ee}.pem"))).map_err(internal)?,
		1 => std::fs::create_dir_all(out_dir.join(format!("{ee}.key.pem"))).map_err(internal)?,
		2 => std::fs::create_dir_all(out_dir.join(format!("{ca}.pem"))).map_err(internal)?,
		3 => std::fs::create_dir_all(out_dir.join(format!("{ca}.key.pem"))).map_err(internal)?,
		4 => {
			std::fs::remove_dir_all(&out_dir).map_err(internal)?;
			std::fs::write(&out_dir, b"a regular file").map_err(internal)?;
		},
		5 => {
			cmd.arg("--country-name").arg("D\u{e9}");
		},
		_ => {
			cmd.arg("--san").arg("b\u{fc}cher.example");
		},
	}
	info.class(format!("obstruction:{}", c.obstruction % 7));
	cmd.arg("--output").arg(&out_dir);
	if let Some(a) = &c.alg {
		cmd.arg(a);
	}
	if let Some(v) = &c.cert_name {
		cmd.arg("--cert-file-name").arg(v);
	}
	if let Some(v) = &c.ca_name {
		cmd.arg("--ca-file-name").arg(v);
	}
	let out = cmd.output().map_err(|e| format!("INTERNAL: cannot run the CLI: {e}"))?;
	let printed = format!("{}\n{}", String::from_utf8_lossy(&out.stdout), String::from_utf8_lossy(&out.stderr));
	let r = (|| -> Result<(), String> {
		if out.status.success() {
			info.class("tool-succeeded");
		} else {
			info.nontrivial = true;
			info.class("tool-failed");
		}
		if printed.contains("PRIVATE KEY") {
			return Err(format!("the tool prints a private key block when it fails (obstruction {}): {}", c.obstruction % 7, printed.chars().take(200).collect::<String>()));
		}
		if let Some(k) = private_keys_in_text(&printed).first() {
			return Err(format!("the tool prints base64 text that decodes to a private key ({} octets) when it fails (obstruction {})", k.len(), c.obstruction % 7));
		}
		// keys that did reach the disk: none of their secret components may appear in what was printed
		let mut files = Vec::new();
		crate::props::c18::list_files(&scratch, &mut files);
		for f in files {
			if let Ok(text) = std::fs::read_to_string(&f) {
				if let Ok(der) = crate::pemstrict::decode(&text, "PRIVATE KEY") {
					if let Ok(secrets) = secrets_of(&der) {
						let sc = Scanner::new(&secrets);
						if let Some(form) = sc.scan(printed.as_bytes()) {
							return Err(format!("the tool prints material of the private key it wrote to {:?} in {form} form", f.file_name()));
						}
					}
				}
			}
		}
		Ok(())
	})();
	let _ = std::fs::remove_dir_all(&scratch);
	r
}

// ---------------------------------------------------------------------------------------------
// What the library itself writes to the process's standard streams while keys are loaded and used.

/// `rv c19-child`: reads a JSON array of key specs; loads each key through the route its index
/// selects, exports the public parts and signs with it. Prints nothing itself.
pub fn child_main() {
	let mut s = String::new();
	std::io::Read::read_to_string(&mut std::io::stdin(), &mut s).expect("stdin");
	let specs: Vec<KeySpec> = serde_json::from_str(&s).expect("child input");
	for ks in specs {
		let Ok(key) = keys::make_key(&ks) else { continue };
		let _ = key.public_key_der();
		let _ = key.public_key_pem();
		let _ = key.algorithm();
		let _ = format!("{key:?}");
		let mut spec = CertSpec::minimal();
		spec.is_ca = IsCaSpec::CaUnconstrained;
		if let Ok(cert) = crate::mk::cert_params(&spec).unwrap().self_signed(&key) {
			let _ = cert.pem();
			let crl = CrlSpec {
				this_update: TimeSpec { unix: 1_600_000_000, nanos: 0, offset: 0 },
				next_update: TimeSpec { unix: 1_700_000_000, nanos: 0, offset: 0 },
				crl_number: Hex(vec![1]),
				idp: None,
				revoked: vec![],
				kid: KidSpec::Pre(Hex(vec![1])),
			};
			let _ = crate::mk::crl_params(&crl).unwrap().signed_by(&cert, &key);
		}
		let mut cs = CertSpec::minimal();
		cs.serial = None;
		let _ = crate::mk::cert_params(&cs).unwrap().serialize_request(&key);
		// the explicit export is computed (it may be cached or converted on the way) but not printed
		if key.as_remote().is_none() {
			let _ = key.serialize_der();
			let pem = key.serialize_pem();
			#[cfg(feature = "crypto")]
			{
				let _ = rcgen::KeyPair::from_pem(&pem);
			}
			let _ = pem;
		}
	}
}

#[derive(Clone, Debug, Serialize, Deserialize, PartialEq, Eq, Hash)]
pub struct ProcessOutputCase {
	pub keys: Vec<KeySpec>,
}

pub fn check_process_output(c: &ProcessOutputCase, info: &mut CaseInfo) -> Result<(), String> {
	use std::io::Write;
	info.nontrivial = true;
	let keys_local: Vec<KeySpec> = c.keys.iter().map(|k| KeySpec { remote: false, ..*k }).collect();
	for k in &keys_local {
		info.class(format!("route:{}", (k.idx as usize / keys::fixtures().pools[&k.alg].len()) % keys::LOADER_ROUTES));
	}
	let exe = std::env::current_exe().map_err(|e| e.to_string())?;
	let mut child = std::process::Command::new(&exe)
		.arg("c19-child")
		.stdin(std::process::Stdio::piped())
		.stdout(std::process::Stdio::piped())
		.stderr(std::process::Stdio::piped())
		.spawn()
		.map_err(|e| format!("INTERNAL: cannot spawn child: {e}"))?;
	child.stdin.take().unwrap().write_all(serde_json::to_string(&keys_local).unwrap().as_bytes()).map_err(|e| format!("INTERNAL: {e}"))?;
	let out = child.wait_with_output().map_err(|e| format!("INTERNAL: {e}"))?;
	if !out.status.success() {
		return Err(format!("INTERNAL: the child process failed: {}", String::from_utf8_lossy(&out.stderr).chars().take(300).collect::<String>()));
	}
	for k in &keys_local {
		let fx = keys::fixture(k);
		let sc = Scanner::new(&secrets_of(&fx.pk8)?);
		for (name, bytes) in [("standard output", &out.stdout), ("standard error", &out.stderr)] {
			if let Some(form) = sc.scan(bytes) {
				return Err(format!(
					"loading and using a {:?} key (route {}) makes the library write private key material to the process's {name} in {form} form",
					k.alg,
					(k.idx as usize / keys::fixtures().pools[&k.alg].len()) % keys::LOADER_ROUTES
				));
			}
		}
	}
	Ok(())
}

fn cli_fail_case() -> BoxedStrategy<CliFailCase> {
	(
		prop::sample::select(vec!["ring".to_string(), "aws".to_string()]),
		prop_oneof![2 => Just(None), 1 => Just(Some("--ed25519")), 1 => Just(Some("--ecdsa-p256")), 1 => Just(Some("--ecdsa-p384")), 1 => Just(Some("--ecdsa-p521")), 1 => Just(Some("--rsa"))],
		0u8..7,
		prop::option::of("[a-z]{1,6}"),
		prop::option::of("[A-Z]{1,6}"),
	)
		.prop_map(|(build, alg, obstruction, cert_name, ca_name)| {
			let alg = match (build.as_str(), alg) {
				("ring", Some("--rsa")) | ("ring", Some("--ecdsa-p521")) => None,
				(_, a) => a.map(|s| s.to_string()),
			};
			CliFailCase { build, alg, obstruction, cert_name, ca_name }
		})
		.boxed()
}

pub fn def() -> PropertyDef {
	PropertyDef {
		id: "C19",
		rule: "Every fixture key algorithm of this back end; the secret components (EC scalar, Ed25519 seed, RSA d/p/q/dP/dQ/qInv) are cut out of the PKCS#8 by the harness reader and every output channel is scanned for any 16-byte window of any component in raw, hexadecimal (either case, separators), decimal-list and base64 (all four alignments) form: der()/pem() and Debug of certificates, CSRs, CSR parameters, CRLs, exported public keys, Debug of KeyPair and SubjectPublicKeyInfo; error paths: the key under every wrong algorithm through every entry point, 0..8 DER mutations, 0..3 PEM text edits (line deleted/duplicated, blank or space line inserted, label changed, header added, truncated, character replaced, CRLF, joined lines, garbage prepended) through all PEM loaders and through the certificate/CSR/SPKI parsers, alone and bundled before / after a certificate or a request. The command line tool (both builds) is run into obstructed output locations (a directory where one of the four files should go, --output naming a regular file) and with invalid options: what it prints must contain no private key block, no base64 text that decodes to a private key, and no material of a key it did write. Fresh child processes load keys through every route, export public parts and sign; their standard output and standard error (where stray diagnostics of the library would land) are scanned too. The explicit export functions are the only exempt channel (and the scanner must find the key there). Non-trivial = artefact case, or an error-path case with at least one error text.",
		assumptions: vec!["a leak is a contiguous window of >= 16 bytes of a secret component in one of the four renderings", "the harness reader extracts the secret components correctly (the scanner is checked against the explicit export in every artefact case)"],
		subs: vec![
			prop_sub("artefacts", 12_500, 150_000, || {
				(local_key(), cert_case(CertGenOpts::FULL, true), csr_case(true), crl_case(false, true))
					.prop_map(|(key, cert, csr, crl)| ArtefactCase { key, cert, csr, crl })
					.boxed()
			}, check_artefacts),
			prop_sub("error-paths", 20_000, 250_000, || {
				(local_key(), any::<bool>(), proptest::collection::vec(text_op(), 0..4), proptest::collection::vec(crate::props::c06::mutation(), 0..8))
					.prop_map(|(key, legacy, ops, der_mutations)| ErrorPathCase { key, legacy, ops, der_mutations })
					.boxed()
			}, check_error_paths),
			prop_sub("cli-failures", 420, 3_000, cli_fail_case, check_cli_failure),
			prop_sub("process-output", 160, 1_600, || proptest::collection::vec(gen::key_spec(), 8..20).prop_map(|keys| ProcessOutputCase { keys }).boxed(), check_process_output),
		],
	}
}
