//! C01 — every issued artefact carries a valid signature over exactly its signed bytes.

use std::sync::atomic::Ordering;
use std::sync::Arc;

use proptest::prelude::*;
use serde::{Deserialize, Serialize};

use crate::gen::{self, CertGenOpts};
use crate::keys::{self, FailPlan};
use crate::mk;
use crate::props::common::*;
use crate::runner::*;
use crate::spec::*;
use crate::x509::AlgId;

fn check_alg_ids(signer: &KeySpec, inner: Option<&AlgId>, outer: &AlgId) -> Result<(), String> {
	let want = keys::rfc_sig_alg_id(signer);
	if outer.raw != want {
		return Err(format!(
			"outer signatureAlgorithm {} is not the RFC-registered identifier {} for {}",
			crate::der::hex(&outer.raw),
			crate::der::hex(&want),
			signer.label()
		));
	}
	if let Some(inner) = inner {
		if inner.raw != outer.raw {
			return Err(format!(
				"AlgorithmIdentifier inside the signed part ({}) differs from the outer one ({})",
				crate::der::hex(&inner.raw),
				crate::der::hex(&outer.raw)
			));
		}
	}
	Ok(())
}

fn key_classes(info: &mut CaseInfo, k: &KeySpec) {
	info.class(format!("signer:{}", k.label()));
}

pub fn check_cert_case(case: &CertCase, info: &mut CaseInfo) -> Result<(), String> {
	let signer = signer_key(case);
	key_classes(info, &signer);
	info.class(if case.issuer.is_some() { "cert:issuer-signed" } else { "cert:self-signed" });
	info.nontrivial = !case.spec.ext_fields_set().is_empty() || signer.alg != KeyAlg::P256 || signer.remote;
	let built = build_cert(case)?;
	let (c, _) = decode_cert(built.cert.der())?;
	check_alg_ids(&signer, Some(&c.inner_alg), &c.outer_alg)?;
	verify_sig(&signer, &c.tbs_raw, &c.signature)
}

pub fn check_csr_case(case: &CsrCase, info: &mut CaseInfo) -> Result<(), String> {
	key_classes(info, &case.key);
	info.class("csr");
	info.nontrivial = !case.attrs.is_empty() || !case.spec.ext_fields_set().is_empty() || case.key.alg != KeyAlg::P256;
	let (csr, _key) = build_csr(case)?;
	let (c, _) = decode_csr(csr.der())?;
	check_alg_ids(&case.key, None, &c.outer_alg)?;
	if c.spki.raw != keys::fixture(&case.key).spki {
		return Err("CSR embeds a different public key than the requester's".into());
	}
	verify_sig(&case.key, &c.cri_raw, &c.signature)
}

pub fn check_crl_case(case: &CrlCase, info: &mut CaseInfo) -> Result<(), String> {
	key_classes(info, &case.issuer.key);
	info.class("crl");
	info.nontrivial = !case.crl.revoked.is_empty() || case.crl.idp.is_some() || case.issuer.key.alg != KeyAlg::P256;
	let built = build_crl(case)?.map_err(|e| format!("CRL signed_by refused a valid request: {e}"))?;
	let (c, _) = decode_crl(built.crl.der())?;
	check_alg_ids(&case.issuer.key, Some(&c.inner_alg), &c.outer_alg)?;
	verify_sig(&case.issuer.key, &c.tbs_raw, &c.signature)
}

#[derive(Clone, Copy, Debug, Serialize, Deserialize, PartialEq, Eq, Hash)]
pub enum Op {
	SelfSigned,
	SignedBy,
	Csr,
	Crl,
}

/// A sequence of generation calls sharing one remote signer that fails on scheduled calls.
#[derive(Clone, Debug, Serialize, Deserialize, PartialEq, Eq, Hash)]
pub struct FaultCase {
	pub key: KeySpec,
	pub subject_key: KeySpec,
	pub ops: Vec<Op>,
	/// bit i set: the signer's i-th `sign` call fails
	pub fail_mask: u8,
	pub spec: CertSpec,
}

fn fault_case() -> BoxedStrategy<FaultCase> {
	(
		gen::key_spec(),
		gen::cheap_key(),
		proptest::collection::vec(prop_oneof![Just(Op::SelfSigned), Just(Op::SignedBy), Just(Op::Csr), Just(Op::Crl)], 1..7),
		any::<u8>(),
		gen::csr_spec(true, false, true),
	)
		.prop_map(|(mut key, subject_key, ops, fail_mask, spec)| {
			key.remote = true;
			FaultCase { key, subject_key, ops, fail_mask, spec }
		})
		.boxed()
}

pub fn check_fault_case(case: &FaultCase, info: &mut CaseInfo) -> Result<(), String> {
	key_classes(info, &case.key);
	let plan = Arc::new(FailPlan { mask: case.fail_mask as u64, ..Default::default() });
	let shared = keys::make_remote(&case.key, plan.clone())?;
	// an issuer certificate for the shared key, made with a separate non-failing signer object
	let mut issuer_spec = CertSpec::minimal();
	issuer_spec.is_ca = IsCaSpec::CaUnconstrained;
	issuer_spec.kid = case.spec.kid.clone();
	let steady = keys::make_remote(&case.key, Arc::new(FailPlan::default()))?;
	let issuer_cert = mk::cert_params(&issuer_spec)?
		.self_signed(&steady)
		.map_err(|e| format!("issuer setup failed: {e}"))?;
	let subject_key = keys::make_key(&case.subject_key)?;
	let (mut n_ok, mut n_err) = (0, 0);
	for (i, op) in case.ops.iter().enumerate() {
		let failed_before = plan.failed.load(Ordering::SeqCst);
		// the artefact's DER, or the error
		let res: Result<Vec<u8>, rcgen::Error> = match op {
			Op::SelfSigned => mk::cert_params(&case.spec)?.self_signed(&shared).map(|c| c.der().to_vec()),
			Op::SignedBy => mk::cert_params(&case.spec)?.signed_by(&subject_key, &issuer_cert, &shared).map(|c| c.der().to_vec()),
			Op::Csr => mk::cert_params(&case.spec)?.serialize_request(&shared).map(|c| c.der().to_vec()),
			Op::Crl => {
				let crl = CrlSpec {
					this_update: TimeSpec { unix: 1_600_000_000, nanos: 0, offset: 0 },
					next_update: TimeSpec { unix: 1_700_000_000, nanos: 0, offset: 0 },
					crl_number: Hex(vec![i as u8 + 1]),
					idp: None,
					revoked: vec![],
					kid: case.spec.kid.clone(),
				};
				mk::crl_params(&crl)?.signed_by(&issuer_cert, &shared).map(|c| c.der().to_vec())
			},
		};
		let signer_failed = plan.failed.load(Ordering::SeqCst) > failed_before;
		match (&res, signer_failed) {
			(Ok(_), true) => {
				return Err(format!("call #{i} ({op:?}): the signer failed but an artefact was produced"));
			},
			(Err(e), false) => {
				return Err(format!("call #{i} ({op:?}): returned Err({e}) although the signer did not fail"));
			},
			(Err(_), true) => n_err += 1,
			(Ok(der), false) => {
				n_ok += 1;
				let (signed, sig) = match op {
					Op::SelfSigned | Op::SignedBy => decode_cert(der).map(|(d, _)| (d.tbs_raw, d.signature)),
					Op::Csr => decode_csr(der).map(|(d, _)| (d.cri_raw, d.signature)),
					Op::Crl => decode_crl(der).map(|(d, _)| (d.tbs_raw, d.signature)),
				}
				.map_err(|e| format!("call #{i} ({op:?}) next to a failing call: {e}"))?;
				verify_sig(&case.key, &signed, &sig).map_err(|e| format!("call #{i} ({op:?}) next to a failing call: {e}"))?;
			},
		}
	}
	info.nontrivial = n_ok > 0 && n_err > 0;
	info.class(format!("fault:ok={}&err={}", n_ok.min(1), n_err.min(1)));
	Ok(())
}

/// The same to-be-signed bytes signed one after the other by two different keys of one algorithm
/// (a CA key roll-over: same issuer name, same leaf parameters, no authority key identifier):
/// each certificate must verify under the key that issued it, and a failing second signer must
/// yield an error.
#[derive(Clone, Debug, Serialize, Deserialize, PartialEq, Eq, Hash)]
pub struct TwinIssuerCase {
	pub alg: KeyAlg,
	pub rsa_hash: RsaHash,
	pub idx_a: u8,
	pub idx_b: u8,
	pub remote_b: bool,
	pub fail_b: bool,
	pub leaf: CertSpec,
	pub leaf_key: KeySpec,
}

pub fn check_twin_issuers(c: &TwinIssuerCase, info: &mut CaseInfo) -> Result<(), String> {
	let pool = keys::fixtures().pools[&c.alg].len() as u8;
	if pool < 2 {
		info.class("single-fixture-algorithm");
		return Ok(());
	}
	let ka = KeySpec { alg: c.alg, idx: c.idx_a % pool, rsa_hash: c.rsa_hash, remote: !cfg!(feature = "crypto") };
	let mut kb = KeySpec { alg: c.alg, idx: c.idx_b % pool, rsa_hash: c.rsa_hash, remote: c.remote_b || c.fail_b || !cfg!(feature = "crypto") };
	if kb.idx == ka.idx {
		kb.idx = (kb.idx + 1) % pool;
	}
	info.nontrivial = true;
	info.class(format!("twin-issuers:{}", ka.label()));
	let mut ispec = CertSpec::minimal();
	ispec.is_ca = IsCaSpec::CaUnconstrained;
	ispec.dn = DnSpec(vec![(DnTypeSpec::Org, DnValueSpec::new(StrKind::Utf8, "rv rolling CA"))]);
	ispec.kid = KidSpec::Pre(Hex(vec![0x11; 4]));
	ispec.serial = Some(Hex(vec![1]));
	let mut leaf = c.leaf.clone();
	leaf.use_aki = false;
	if leaf.serial.is_none() {
		leaf.serial = Some(Hex(vec![0x33, 0x44]));
	}
	if !matches!(leaf.kid, KidSpec::Pre(_)) && !cfg!(feature = "crypto") {
		leaf.kid = KidSpec::Pre(Hex(vec![5]));
	}
	let leaf_key = keys::make_key(&c.leaf_key)?;
	let key_a = keys::make_key(&ka)?;
	let plan = Arc::new(FailPlan { mask: if c.fail_b { u64::MAX } else { 0 }, ..Default::default() });
	let key_b = if kb.remote { keys::make_remote(&kb, plan.clone())? } else { keys::make_key(&kb)? };
	// the two CA certificates (each self-signed with a steady signer object)
	let ca_a = mk::cert_params(&ispec)?.self_signed(&key_a).map_err(|e| format!("CA a: {e}"))?;
	let steady_b = keys::make_key(&KeySpec { remote: !cfg!(feature = "crypto"), ..kb })?;
	let ca_b = mk::cert_params(&ispec)?.self_signed(&steady_b).map_err(|e| format!("CA b: {e}"))?;
	// consecutively, on this thread
	let first = mk::cert_params(&leaf)?.signed_by(&leaf_key, &ca_a, &key_a).map_err(|e| format!("leaf under CA a: {e}"))?;
	let second = mk::cert_params(&leaf)?.signed_by(&leaf_key, &ca_b, &key_b);
	let (d1, _) = decode_cert(first.der())?;
	verify_sig(&ka, &d1.tbs_raw, &d1.signature).map_err(|e| format!("leaf issued by the first key: {e}"))?;
	match (second, c.fail_b) {
		(Ok(_), true) => Err("the second signer failed (it was never able to sign) but a certificate was produced".into()),
		(Err(_), true) => Ok(()),
		(Err(e), false) => Err(format!("leaf under CA b: {e}")),
		(Ok(cert), false) => {
			let (d2, _) = decode_cert(cert.der())?;
			if d2.tbs_raw == d1.tbs_raw {
				info.class("identical-tbs");
			}
			verify_sig(&kb, &d2.tbs_raw, &d2.signature).map_err(|e| format!("the same to-be-signed bytes issued again by a second key of the same algorithm: {e}"))
		},
	}
}

fn twin_issuer_case() -> BoxedStrategy<TwinIssuerCase> {
	(
		prop_oneof![4 => Just(KeyAlg::P256), 3 => Just(KeyAlg::P384), 4 => Just(KeyAlg::Ed25519), 1 => Just(KeyAlg::Rsa2048)],
		gen::rsa_hash(),
		any::<u8>(),
		any::<u8>(),
		prop::bool::weighted(0.3),
		prop::bool::weighted(0.2),
		leaf_spec(1_700_000_000),
		gen::cheap_key(),
	)
		.prop_map(|(alg, rsa_hash, idx_a, idx_b, remote_b, fail_b, leaf, leaf_key)| TwinIssuerCase { alg, rsa_hash, idx_a, idx_b, remote_b, fail_b, leaf, leaf_key })
		.boxed()
}

/// Keys generated by rcgen itself (never saved or reloaded) sign all three artefact kinds.
#[derive(Clone, Debug, Serialize, Deserialize, PartialEq, Eq, Hash)]
pub struct GenKeyCase {
	pub alg_idx: u8,
	/// aws-lc-rs only: 0 = generate_for, 1..=3 = generate_rsa_for with 2048 / 3072 / 4096 bits
	pub rsa_size: u8,
	pub dn: DnSpec,
}

#[cfg(feature = "crypto")]
pub fn generate_key(alg: &'static rcgen::SignatureAlgorithm, rsa_size: u8) -> Result<rcgen::KeyPair, rcgen::Error> {
	#[cfg(feature = "aws_be")]
	{
		let size = match rsa_size % 4 {
			1 => Some(rcgen::RsaKeySize::_2048),
			2 => Some(rcgen::RsaKeySize::_3072),
			3 => Some(rcgen::RsaKeySize::_4096),
			_ => None,
		};
		if let Some(size) = size {
			return match rcgen::KeyPair::generate_rsa_for(alg, size) {
				Err(rcgen::Error::KeyGenerationUnavailable) => rcgen::KeyPair::generate_for(alg),
				r => r,
			};
		}
	}
	let _ = rsa_size;
	rcgen::KeyPair::generate_for(alg)
}

#[cfg(feature = "crypto")]
pub fn check_gen_key(c: &GenKeyCase, info: &mut CaseInfo) -> Result<(), String> {
	let algos = crate::props::c11::algos();
	let (name, alg) = algos[c.alg_idx as usize % algos.len()];
	let key = match generate_key(alg, c.rsa_size) {
		Ok(k) => k,
		Err(rcgen::Error::KeyGenerationUnavailable) => {
			info.class("generation-unavailable");
			return Ok(());
		},
		Err(e) => return Err(format!("generating a {name} key failed: {e}")),
	};
	info.nontrivial = true;
	info.class(format!("generated:{name}"));
	if key.algorithm() != alg {
		return Err(format!("a key generated for {name} reports {:?}", key.algorithm()));
	}
	// the public key as OpenSSL derives it from the exported private key (for Ed25519 from the seed)
	let spki = crate::props::c18::public_of_private(&key.serialize_der()).map_err(|e| format!("exported generated key: {e}"))?;
	if spki != key.public_key_der() {
		return Err("the exported private key of a generated key does not belong to its public key".into());
	}
	let (fam, digest) = crate::props::c06::classify_alg(alg).ok_or("unknown algorithm")?;
	let as_spec = KeySpec {
		alg: fam,
		idx: 0,
		rsa_hash: match name {
			"RSA_SHA384" => RsaHash::Sha384,
			"RSA_SHA512" => RsaHash::Sha512,
			_ => RsaHash::Sha256,
		},
		remote: false,
	};
	let verify = |what: &str, inner: Option<&AlgId>, outer: &AlgId, signed: &[u8], sig: &[u8]| -> Result<(), String> {
		check_alg_ids(&as_spec, inner, outer).map_err(|e| format!("{what}: {e}"))?;
		match keys::openssl_verify(&spki, digest.map(|d| d.md()), signed, sig)? {
			true => Ok(()),
			false => Err(format!("{what}: OpenSSL rejects the signature of a freshly generated {name} key under its public key")),
		}
	};
	let mut spec = CertSpec::minimal();
	spec.dn = c.dn.clone();
	spec.is_ca = IsCaSpec::CaUnconstrained;
	let cert = mk::cert_params(&spec)?.self_signed(&key).map_err(|e| format!("self_signed: {e}"))?;
	let (d, _) = decode_cert(cert.der())?;
	verify("certificate", Some(&d.inner_alg), &d.outer_alg, &d.tbs_raw, &d.signature)?;
	let mut cs = CertSpec::minimal();
	cs.dn = c.dn.clone();
	cs.serial = None;
	let csr = mk::cert_params(&cs)?.serialize_request(&key).map_err(|e| format!("serialize_request: {e}"))?;
	let (r, _) = decode_csr(csr.der())?;
	verify("CSR", None, &r.outer_alg, &r.cri_raw, &r.signature)?;
	let crl = CrlSpec {
		this_update: TimeSpec { unix: 1_600_000_000, nanos: 0, offset: 0 },
		next_update: TimeSpec { unix: 1_700_000_000, nanos: 0, offset: 0 },
		crl_number: Hex(vec![1]),
		idp: None,
		revoked: vec![],
		kid: KidSpec::Sha256,
	};
	let crl = mk::crl_params(&crl)?.signed_by(&cert, &key).map_err(|e| format!("CRL signed_by: {e}"))?;
	let (l, _) = decode_crl(crl.der())?;
	verify("CRL", Some(&l.inner_alg), &l.outer_alg, &l.tbs_raw, &l.signature)
}

#[cfg(not(feature = "crypto"))]
pub fn check_gen_key(_: &GenKeyCase, _: &mut CaseInfo) -> Result<(), String> {
	Ok(())
}

fn gen_key_case() -> BoxedStrategy<GenKeyCase> {
	(any::<u8>(), prop_oneof![5 => Just(0u8), 4 => Just(1u8), 1 => Just(2u8), 1 => Just(3u8)], gen::dn(3, true, false))
		.prop_map(|(alg_idx, rsa_size, dn)| GenKeyCase { alg_idx, rsa_size, dn })
		.boxed()
}

pub fn def() -> PropertyDef {
	PropertyDef {
		id: "C01",
		rule: "Generated certificates (self-/issuer-signed, three public-key sources), CSRs (with attributes) and CRLs for every key algorithm of this back end, local and remote; the harness decoder cuts out the exact signed bytes; OpenSSL verifies the signature over them under the signer's key; inner and outer AlgorithmIdentifier must be byte-identical and equal the RFC table. Keys generated by rcgen itself (generate_for for every algorithm; under aws-lc-rs also generate_rsa_for with 2048/3072/4096 bits) sign a certificate, a CSR and a CRL without ever being saved or reloaded; the public key is the one OpenSSL derives from the exported private key. Twin issuers: the same leaf parameters are issued consecutively under two CA keys of one algorithm that share the issuer name (identical to-be-signed bytes); each must verify under its own issuer, and a second signer that always fails must yield an error. Fault sequences: 1..6 generation calls share a remote signer that fails on a generated subset of its sign calls, reporting the failure through varying error values. Non-trivial = optional fields present, or key not local P-256; fault case non-trivial = at least one failing and one succeeding call.",
		assumptions: vec![
			"OpenSSL's EVP signature verification and its SPKI encoding of the fixture keys",
			"the harness DER reader finds the byte range of the signed part correctly (unit-tested, cross-checked against OpenSSL by C12/C03 which verify whole certificates)",
		],
		subs: vec![
			prop_sub("cert", 32_000, 400_000, || cert_case(CertGenOpts::FULL, false), check_cert_case),
			prop_sub("csr", 16_000, 150_000, || csr_case(false), check_csr_case),
			prop_sub("crl", 16_000, 150_000, || crl_case(false, false), check_crl_case),
			prop_sub("fault", 12_000, 100_000, fault_case, check_fault_case),
			prop_sub("generated-keys", 640, 6_000, gen_key_case, check_gen_key),
			prop_sub("twin-issuers", 8_000, 100_000, twin_issuer_case, check_twin_issuers),
		],
	}
}
