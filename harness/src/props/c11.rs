//! C11 — private keys survive save/load and keep their identity and algorithm.
#![cfg(feature = "crypto")]

use std::collections::hash_map::DefaultHasher;
use std::hash::{Hash, Hasher};

use pki_types::{PrivateKeyDer, PrivatePkcs1KeyDer, PrivatePkcs8KeyDer, PrivateSec1KeyDer};
use proptest::prelude::*;
use serde::{Deserialize, Serialize};

use crate::der::Lints;
use crate::keys;
use crate::pemstrict;
use crate::props::c06::classify_alg;
use crate::props::common::*;
use crate::runner::*;
use crate::spec::*;
use crate::x509;

#[derive(Clone, Copy, Debug, Serialize, Deserialize, PartialEq, Eq, Hash)]
pub enum Entry {
	TryFromSlice,
	TryFromVec,
	TryFromPrivateKeyDer,
	TryFromPkcs8Der,
	FromPem,
	Pkcs8DerAlgo,
	DerAlgo,
	Pkcs8PemAlgo,
	PemAlgo,
}

pub const ENTRIES: [Entry; 9] = [
	Entry::TryFromSlice,
	Entry::TryFromVec,
	Entry::TryFromPrivateKeyDer,
	Entry::TryFromPkcs8Der,
	Entry::FromPem,
	Entry::Pkcs8DerAlgo,
	Entry::DerAlgo,
	Entry::Pkcs8PemAlgo,
	Entry::PemAlgo,
];

impl Entry {
	pub fn explicit(self) -> bool {
		matches!(self, Entry::Pkcs8DerAlgo | Entry::DerAlgo | Entry::Pkcs8PemAlgo | Entry::PemAlgo)
	}
}

#[derive(Clone, Copy, Debug, Serialize, Deserialize, PartialEq, Eq, Hash)]
pub enum Encoding {
	Pkcs8,
	/// SEC1 (EC) / PKCS#1 (RSA)
	Legacy,
}

/// Requested algorithm by index into `algos()`.
pub fn algos() -> Vec<(&'static str, &'static rcgen::SignatureAlgorithm)> {
	let mut v: Vec<(&'static str, &'static rcgen::SignatureAlgorithm)> = vec![
		("RSA_SHA256", &rcgen::PKCS_RSA_SHA256),
		("RSA_SHA384", &rcgen::PKCS_RSA_SHA384),
		("RSA_SHA512", &rcgen::PKCS_RSA_SHA512),
		("ECDSA_P256_SHA256", &rcgen::PKCS_ECDSA_P256_SHA256),
		("ECDSA_P384_SHA384", &rcgen::PKCS_ECDSA_P384_SHA384),
		("ED25519", &rcgen::PKCS_ED25519),
	];
	#[cfg(feature = "aws_be")]
	v.push(("ECDSA_P521_SHA512", &rcgen::PKCS_ECDSA_P521_SHA512));
	v
}

fn family(alg: KeyAlg) -> KeyAlg {
	match alg {
		KeyAlg::Rsa2048 | KeyAlg::Rsa3072 | KeyAlg::Rsa4096 | KeyAlg::Rsa6144 => KeyAlg::Rsa2048,
		a => a,
	}
}

fn pem_label(alg: KeyAlg, enc: Encoding) -> &'static str {
	match (enc, family(alg)) {
		(Encoding::Pkcs8, _) => "PRIVATE KEY",
		(Encoding::Legacy, KeyAlg::Rsa2048) => "RSA PRIVATE KEY",
		(Encoding::Legacy, _) => "EC PRIVATE KEY",
	}
}

fn load(entry: Entry, der: &[u8], label: &str, enc: Encoding, is_rsa: bool, alg: &'static rcgen::SignatureAlgorithm) -> Result<rcgen::KeyPair, rcgen::Error> {
	let typed = || -> PrivateKeyDer<'static> {
		match (enc, is_rsa) {
			(Encoding::Pkcs8, _) => PrivateKeyDer::Pkcs8(PrivatePkcs8KeyDer::from(der.to_vec())),
			(Encoding::Legacy, true) => PrivateKeyDer::Pkcs1(PrivatePkcs1KeyDer::from(der.to_vec())),
			(Encoding::Legacy, false) => PrivateKeyDer::Sec1(PrivateSec1KeyDer::from(der.to_vec())),
		}
	};
	match entry {
		Entry::TryFromSlice => rcgen::KeyPair::try_from(der),
		Entry::TryFromVec => rcgen::KeyPair::try_from(der.to_vec()),
		Entry::TryFromPrivateKeyDer => rcgen::KeyPair::try_from(&typed()),
		Entry::TryFromPkcs8Der => rcgen::KeyPair::try_from(&PrivatePkcs8KeyDer::from(der.to_vec())),
		Entry::FromPem => rcgen::KeyPair::from_pem(&pemstrict::encode(label, der)),
		Entry::Pkcs8DerAlgo => rcgen::KeyPair::from_pkcs8_der_and_sign_algo(&PrivatePkcs8KeyDer::from(der.to_vec()), alg),
		Entry::DerAlgo => rcgen::KeyPair::from_der_and_sign_algo(&typed(), alg),
		Entry::Pkcs8PemAlgo => rcgen::KeyPair::from_pkcs8_pem_and_sign_algo(&pemstrict::encode(label, der), alg),
		Entry::PemAlgo => rcgen::KeyPair::from_pem_and_sign_algo(&pemstrict::encode(label, der), alg),
	}
}

/// Identity of a loaded key against the reference public key.
fn check_identity(
	k: &rcgen::KeyPair,
	ref_spki: &[u8],
	ref_raw: &[u8],
	key_alg: KeyAlg,
	requested: Option<&'static rcgen::SignatureAlgorithm>,
) -> Result<(), String> {
	if k.public_key_raw() != ref_raw {
		return Err("loaded key reports a different raw public key".into());
	}
	if k.public_key_der() != ref_spki {
		return Err(format!(
			"loaded key exports SubjectPublicKeyInfo {} but the key's is {}",
			crate::der::hex(&k.public_key_der()),
			crate::der::hex(ref_spki)
		));
	}
	let (fam, digest) = classify_alg(k.algorithm()).ok_or("loaded key reports an unknown algorithm")?;
	if fam != family(key_alg) {
		return Err(format!("a {:?} key was loaded as a {:?} key", key_alg, fam));
	}
	if let Some(r) = requested {
		if k.algorithm() != r {
			return Err(format!("loaded under {:?} but the key reports {:?}", r, k.algorithm()));
		}
	}
	if !k.is_compatible(k.algorithm()) || k.compatible_algs().next() != Some(k.algorithm()) {
		return Err("is_compatible / compatible_algs disagree with algorithm()".into());
	}
	// a signature made with the loaded key verifies under the original public key
	let csr = rcgen::CertificateParams::default().serialize_request(k).map_err(|e| format!("signing with the loaded key failed: {e}"))?;
	let (c, _) = decode_csr(csr.der())?;
	if !keys::openssl_verify(ref_spki, digest.map(|d| d.md()), &c.cri_raw, &c.signature)? {
		return Err("a signature by the loaded key does not verify under the original public key".into());
	}
	Ok(())
}

/// The saved form of a loaded key (documented as PKCS#8 DER / PEM) goes back in through all nine
/// loading entry points, under the key's own algorithm for the explicit ones.
fn reload_everywhere(k: &rcgen::KeyPair, ref_spki: &[u8], ref_raw: &[u8], key_alg: KeyAlg, info: &mut CaseInfo) -> Result<(), String> {
	let saved = k.serialize_der();
	let saved_pem = k.serialize_pem();
	let alg = k.algorithm();
	let alg: &'static rcgen::SignatureAlgorithm = algos().into_iter().map(|x| x.1).find(|a| *a == alg).ok_or("loaded key reports an unknown algorithm")?;
	for entry in ENTRIES {
		let r = no_panic(|| match entry {
			Entry::TryFromSlice => rcgen::KeyPair::try_from(saved.as_slice()),
			Entry::TryFromVec => rcgen::KeyPair::try_from(saved.clone()),
			Entry::TryFromPrivateKeyDer => match PrivateKeyDer::try_from(saved.clone()) {
				Ok(d) => rcgen::KeyPair::try_from(&d),
				Err(_) => Err(rcgen::Error::CouldNotParseKeyPair),
			},
			Entry::TryFromPkcs8Der => rcgen::KeyPair::try_from(&PrivatePkcs8KeyDer::from(saved.clone())),
			Entry::FromPem => rcgen::KeyPair::from_pem(&saved_pem),
			Entry::Pkcs8DerAlgo => rcgen::KeyPair::from_pkcs8_der_and_sign_algo(&PrivatePkcs8KeyDer::from(saved.clone()), alg),
			Entry::DerAlgo => match PrivateKeyDer::try_from(saved.clone()) {
				Ok(d) => rcgen::KeyPair::from_der_and_sign_algo(&d, alg),
				Err(_) => Err(rcgen::Error::CouldNotParseKeyPair),
			},
			Entry::Pkcs8PemAlgo => rcgen::KeyPair::from_pkcs8_pem_and_sign_algo(&saved_pem, alg),
			Entry::PemAlgo => rcgen::KeyPair::from_pem_and_sign_algo(&saved_pem, alg),
		})
		.map_err(|p| format!("{p} while re-loading a saved key through {entry:?}"))?;
		match r {
			Ok(again) => check_identity(&again, ref_spki, ref_raw, key_alg, if entry.explicit() { Some(alg) } else { None })
				.map_err(|e| format!("saved key re-loaded through {entry:?}: {e}"))?,
			Err(e) => {
				if let Some(class) = crate::findings::c11_saved_key_refused(&saved, entry, &e) {
					info.class(class);
					continue;
				}
				return Err(format!("a key saved with serialize_der / serialize_pem does not load again through {entry:?}: {e}"));
			},
		}
	}
	Ok(())
}

#[derive(Clone, Debug, Serialize, Deserialize, PartialEq, Eq, Hash)]
pub struct MatrixCase {
	pub alg: KeyAlg,
	pub idx: u8,
	pub encoding: Encoding,
	pub entry: Entry,
	pub requested: u8,
}

pub fn check_matrix(m: &MatrixCase, info: &mut CaseInfo) -> Result<(), String> {
	let fx = keys::fixture(&KeySpec { alg: m.alg, idx: m.idx, rsa_hash: RsaHash::Sha256, remote: false });
	let der: &[u8] = match m.encoding {
		Encoding::Pkcs8 => &fx.pk8,
		Encoding::Legacy => fx.legacy.as_deref().ok_or("fixture has no legacy encoding")?,
	};
	let algos = algos();
	let (rname, requested) = algos[m.requested as usize % algos.len()];
	let is_rsa = family(m.alg) == KeyAlg::Rsa2048;
	let fits = classify_alg(requested).map(|(f, _)| f) == Some(family(m.alg));
	info.nontrivial = m.entry != Entry::TryFromSlice || m.encoding == Encoding::Legacy || (m.entry.explicit() && !fits);
	info.class(format!("entry:{:?}", m.entry));
	info.class(format!("encoding:{:?}", m.encoding));
	let r = no_panic(|| load(m.entry, der, pem_label(m.alg, m.encoding), m.encoding, is_rsa, requested))
		.map_err(|p| format!("{p} while loading a {:?} key ({:?}) through {:?} as {rname}", m.alg, m.encoding, m.entry))?;
	if m.entry.explicit() && !fits {
		info.class("mismatched-pair");
		return match r {
			Err(_) => Ok(()),
			Ok(k) => Err(format!(
				"a {:?} key was loaded under {rname} (which it does not fit) through {:?}; the key reports {:?}",
				m.alg,
				m.entry,
				k.algorithm()
			)),
		};
	}
	// PKCS#8 documents must load everywhere; SEC1 / PKCS#1 only where the back end documents it
	let must_load = m.encoding == Encoding::Pkcs8 || (cfg!(feature = "aws_be") && !matches!(m.entry, Entry::TryFromPkcs8Der | Entry::Pkcs8DerAlgo | Entry::Pkcs8PemAlgo));
	match r {
		Ok(k) => {
			info.class("loaded");
			check_identity(&k, &fx.spki, &fx.raw_public, m.alg, if m.entry.explicit() { Some(requested) } else { None })?;
			// save (serialize_der / serialize_pem) and load again through every entry point
			reload_everywhere(&k, &fx.spki, &fx.raw_public, m.alg, info)
		},
		Err(e) => {
			if must_load {
				Err(format!("a {:?} key in {:?} encoding is refused by {:?}{}: {e}", m.alg, m.encoding, m.entry, if m.entry.explicit() { format!(" under {rname}") } else { String::new() }))
			} else {
				info.class("refused-legacy-encoding");
				Ok(())
			}
		},
	}
}

fn matrix(_cfg: &RunCfg) -> Vec<MatrixCase> {
	let mut v = Vec::new();
	let n_alg = algos().len() as u8;
	for alg in keys::available_algs() {
		for idx in 0..keys::fixtures().pools[&alg].len() as u8 {
			for encoding in [Encoding::Pkcs8, Encoding::Legacy] {
				if encoding == Encoding::Legacy && alg == KeyAlg::Ed25519 {
					continue;
				}
				for entry in ENTRIES {
					if entry.explicit() {
						for requested in 0..n_alg {
							v.push(MatrixCase { alg, idx, encoding, entry, requested });
						}
					} else {
						v.push(MatrixCase { alg, idx, encoding, entry, requested: 0 });
					}
				}
			}
		}
	}
	v
}

/// Keys generated by rcgen itself, saved and reloaded through every entry point.
#[derive(Clone, Debug, Serialize, Deserialize, PartialEq, Eq, Hash)]
pub struct FreshCase {
	pub alg_idx: u8,
	pub entry: Entry,
	pub requested: u8,
	pub via_pem_export: bool,
}

pub fn check_fresh(f: &FreshCase, info: &mut CaseInfo) -> Result<(), String> {
	let algos = algos();
	let (gname, galg) = algos[f.alg_idx as usize % algos.len()];
	let (fam, _) = classify_alg(galg).unwrap();
	info.class(format!("generated:{gname}"));
	info.class(format!("entry:{:?}", f.entry));
	let original = match rcgen::KeyPair::generate_for(galg) {
		Ok(k) => k,
		Err(rcgen::Error::KeyGenerationUnavailable) => {
			info.class("generation-unavailable");
			return Ok(());
		},
		Err(e) => return Err(format!("generate_for({gname}) failed: {e}")),
	};
	info.nontrivial = true;
	let spki = original.public_key_der();
	let raw = original.public_key_raw().to_vec();
	// the generated key's own SPKI must be what OpenSSL derives from the exported private key
	let exported = original.serialize_der();
	let derived_spki = if fam == KeyAlg::Ed25519 {
		// ring writes PKCS#8 v2 (RFC 5958 with the public key attached), which OpenSSL's decoder does
		// not read; take the seed (OCTET STRING { OCTET STRING seed }) and let OpenSSL derive the key
		let pos = exported.windows(4).position(|w| w == [0x04, 0x22, 0x04, 0x20]).ok_or("no Ed25519 seed in the exported PKCS#8")?;
		let seed = exported.get(pos + 4..pos + 36).ok_or("truncated Ed25519 seed")?;
		openssl::pkey::PKey::private_key_from_raw_bytes(seed, openssl::pkey::Id::ED25519)
			.and_then(|k| k.public_key_to_der())
			.map_err(|e| e.to_string())?
	} else {
		openssl::pkey::PKey::private_key_from_der(&exported)
			.and_then(|k| k.public_key_to_der())
			.map_err(|e| format!("OpenSSL cannot load the exported key: {e}"))?
	};
	if derived_spki != spki {
		return Err("the exported private key does not belong to the exported public key".into());
	}
	// the generated key itself (before any save/load): algorithm as asked, signatures verify
	check_identity(&original, &spki, &raw, fam, Some(galg)).map_err(|e| format!("freshly generated {gname} key: {e}"))?;
	let der = if f.via_pem_export {
		pemstrict::decode(&original.serialize_pem(), "PRIVATE KEY").map_err(|e| format!("serialize_pem: {e}"))?
	} else {
		original.serialize_der()
	};
	let (rname, requested) = algos[f.requested as usize % algos.len()];
	let fits = classify_alg(requested).map(|(x, _)| x) == Some(fam);
	let r = no_panic(|| load(f.entry, &der, "PRIVATE KEY", Encoding::Pkcs8, fam == KeyAlg::Rsa2048, requested))
		.map_err(|p| format!("{p} while reloading a generated {gname} key through {:?}", f.entry))?;
	if f.entry.explicit() && !fits {
		info.class("mismatched-pair");
		return match r {
			Err(_) => Ok(()),
			Ok(_) => Err(format!("a generated {gname} key was loaded under {rname}, which it does not fit")),
		};
	}
	let k = r.map_err(|e| format!("a generated {gname} key does not load again through {:?}: {e}", f.entry))?;
	let key_alg = fam;
	check_identity(&k, &spki, &raw, key_alg, if f.entry.explicit() { Some(requested) } else if fam != KeyAlg::Rsa2048 { Some(galg) } else { None })?;
	reload_everywhere(&k, &spki, &raw, key_alg, info)
}

fn fresh_case() -> BoxedStrategy<FreshCase> {
	(
		prop_oneof![10 => 3u8..7, 1 => 0u8..3],
		prop::sample::select(ENTRIES.to_vec()),
		any::<u8>(),
		any::<bool>(),
	)
		.prop_map(|(alg_idx, entry, requested, via_pem_export)| FreshCase { alg_idx, entry, requested, via_pem_export })
		.boxed()
}

/// Exported SubjectPublicKeyInfo of every fixture key.
pub fn check_spki(k: &KeySpec, info: &mut CaseInfo) -> Result<(), String> {
	info.nontrivial = true;
	info.class(format!("spki:{:?}", k.alg));
	let key = keys::make_key(k)?;
	let spki = key.public_key_der();
	let fx = keys::fixture(k);
	let l = Lints::new();
	let parsed = x509::parse_spki_der(&spki, &l).map_err(|e| format!("independent decoder rejects the exported SPKI: {e}"))?;
	let want = keys::rfc_spki_alg_id(k.alg);
	if parsed.alg.raw != want {
		return Err(format!(
			"exported SPKI algorithm identifier {} is not the RFC-registered {} for {:?}",
			crate::der::hex(&parsed.alg.raw),
			crate::der::hex(&want),
			k.alg
		));
	}
	if parsed.key_bits != fx.raw_public {
		return Err("exported SPKI carries different key bits".into());
	}
	let ossl = openssl::pkey::PKey::public_key_from_der(&spki).map_err(|e| format!("OpenSSL cannot decode the exported SPKI: {e}"))?;
	if ossl.public_key_to_der().map_err(|e| e.to_string())? != fx.spki {
		return Err("OpenSSL decodes the exported SPKI to a different key".into());
	}
	if ossl.bits() != fx.pkey.bits() || ossl.id() != fx.pkey.id() {
		return Err("OpenSSL decodes the exported SPKI to a different key type or size".into());
	}
	use rcgen::PublicKeyData;
	for (name, back) in [
		("from_der", rcgen::SubjectPublicKeyInfo::from_der(&spki)),
		("from_pem", rcgen::SubjectPublicKeyInfo::from_pem(&key.public_key_pem())),
	] {
		let back = back.map_err(|e| format!("SubjectPublicKeyInfo::{name} rejects an exported key: {e}"))?;
		if back.der_bytes() != fx.raw_public.as_slice() {
			return Err(format!("SubjectPublicKeyInfo::{name} returns different key bytes"));
		}
		if classify_alg(back.algorithm()).map(|x| x.0) != Some(family(k.alg)) {
			return Err(format!("SubjectPublicKeyInfo::{name} returns algorithm {:?} for a {:?} key", back.algorithm(), k.alg));
		}
	}
	// the PEM export is the same SubjectPublicKeyInfo under the RFC 7468 label for one ("PUBLIC KEY")
	let from_text = crate::pemstrict::decode(&key.public_key_pem(), "PUBLIC KEY").map_err(|e| format!("the exported public key PEM does not decode independently as a SubjectPublicKeyInfo: {e}"))?;
	if from_text != spki {
		return Err("the exported public key PEM carries other bytes than public_key_der()".into());
	}
	Ok(())
}

/// Equality, hashing and lookup by OID over the public algorithm statics.
#[derive(Clone, Debug, Serialize, Deserialize, PartialEq, Eq, Hash)]
pub struct AlgoPair {
	pub a: u8,
	pub b: u8,
}

fn hash_of(a: &rcgen::SignatureAlgorithm) -> u64 {
	let mut h = DefaultHasher::new();
	a.hash(&mut h);
	h.finish()
}

fn rfc_sig_oid(name: &str) -> Vec<u64> {
	match name {
		"RSA_SHA256" => vec![1, 2, 840, 113549, 1, 1, 11],
		"RSA_SHA384" => vec![1, 2, 840, 113549, 1, 1, 12],
		"RSA_SHA512" => vec![1, 2, 840, 113549, 1, 1, 13],
		"ECDSA_P256_SHA256" => vec![1, 2, 840, 10045, 4, 3, 2],
		"ECDSA_P384_SHA384" => vec![1, 2, 840, 10045, 4, 3, 3],
		"ECDSA_P521_SHA512" => vec![1, 2, 840, 10045, 4, 3, 4],
		_ => vec![1, 3, 101, 112],
	}
}

pub fn check_algo_pair(p: &AlgoPair, info: &mut CaseInfo) -> Result<(), String> {
	info.nontrivial = true;
	let algos = algos();
	let (na, a) = algos[p.a as usize % algos.len()];
	let (nb, b) = algos[p.b as usize % algos.len()];
	let same = p.a as usize % algos.len() == p.b as usize % algos.len();
	if (a == b) != same {
		return Err(format!("{na} == {nb} is {} but they are {} statics", a == b, if same { "the same" } else { "different" }));
	}
	if a == b && hash_of(a) != hash_of(b) {
		return Err(format!("{na} == {nb} but their hashes differ"));
	}
	let looked = rcgen::SignatureAlgorithm::from_oid(&rfc_sig_oid(na)).map_err(|e| format!("from_oid(RFC OID of {na}) failed: {e}"))?;
	if looked != a {
		return Err(format!("from_oid(RFC OID of {na}) returns {:?}", looked));
	}
	if format!("{a:?}") == "Unknown" {
		return Err(format!("{na} has no Debug name"));
	}
	// lookup is by the exact identifier: neighbours, prefixes and extensions of a registered OID
	// either are not registered or belong to an algorithm that answers to exactly that OID
	let oid = rfc_sig_oid(na);
	let registered: Vec<Vec<u64>> = algos.iter().map(|(n, _)| rfc_sig_oid(n)).collect();
	let mut variants: Vec<Vec<u64>> = Vec::new();
	for extra in [0u64, 1, 2, u64::MAX] {
		let mut v = oid.clone();
		v.push(extra);
		variants.push(v);
	}
	variants.push(oid[..oid.len() - 1].to_vec());
	variants.push(oid[..2].to_vec());
	variants.push(vec![]);
	for delta in [1u64, 2, 100] {
		let mut v = oid.clone();
		*v.last_mut().unwrap() = v.last().unwrap().wrapping_add(delta);
		variants.push(v);
	}
	let mut v = oid.clone();
	v[0] = (v[0] + 1) % 3;
	variants.push(v);
	for q in variants {
		if registered.contains(&q) {
			continue;
		}
		if let Ok(hit) = rcgen::SignatureAlgorithm::from_oid(&q) {
			return Err(format!("from_oid({q:?}), which is not a registered identifier, returns {hit:?}"));
		}
	}
	Ok(())
}

/// SubjectPublicKeyInfo documents around arbitrary key octets (a parser does not validate points
/// or moduli): what `from_der` hands back must be those octets and the identifier's algorithm.
#[derive(Clone, Debug, Serialize, Deserialize, PartialEq, Eq, Hash)]
pub struct SynthSpki {
	pub alg: KeyAlg,
	pub first: u8,
	pub last: u8,
	pub fill: u8,
}

pub fn check_synth_spki(c: &SynthSpki, info: &mut CaseInfo) -> Result<(), String> {
	use rcgen::PublicKeyData;
	info.nontrivial = true;
	info.class(format!("synthetic-spki:{:?}", family(c.alg)));
	let fx = keys::fixture(&KeySpec { alg: c.alg, idx: 0, rsa_hash: RsaHash::Sha256, remote: false });
	let mut bits = fx.raw_public.clone();
	if family(c.alg) == KeyAlg::Rsa2048 {
		// keep the RSAPublicKey SEQUENCE header: vary the last octets only
		let n = bits.len();
		bits[n - 1] = c.last;
	} else {
		for b in bits.iter_mut() {
			*b = c.fill;
		}
		let n = bits.len();
		bits[0] = if c.alg == KeyAlg::Ed25519 { c.first } else { 0x04 };
		if c.alg != KeyAlg::Ed25519 {
			bits[1] = c.first;
		}
		bits[n - 1] = c.last;
	}
	let spki = crate::der::enc_seq(&[keys::rfc_spki_alg_id(c.alg), crate::forge::enc_bits(&bits, 0)]);
	let parsed = no_panic(|| rcgen::SubjectPublicKeyInfo::from_der(&spki)).map_err(|p| format!("{p} in SubjectPublicKeyInfo::from_der"))?;
	let parsed = parsed.map_err(|e| format!("SubjectPublicKeyInfo::from_der refuses a well-formed {:?} document: {e}", c.alg))?;
	if parsed.der_bytes() != bits.as_slice() {
		return Err(format!("SubjectPublicKeyInfo::from_der returns key octets {} for a document holding {}", crate::der::hex(parsed.der_bytes()), crate::der::hex(&bits)));
	}
	match classify_alg(parsed.algorithm()) {
		Some((f, _)) if f == family(c.alg) => {},
		other => return Err(format!("SubjectPublicKeyInfo::from_der returns {:?} for a {:?} document", other.map(|x| x.0), c.alg)),
	}
	// and it writes the same document again when a certificate is issued for it
	let ik = keys::make_key(&KeySpec { alg: KeyAlg::Ed25519, idx: 0, rsa_hash: RsaHash::Sha256, remote: false })?;
	let mut ispec = CertSpec::minimal();
	ispec.is_ca = IsCaSpec::CaUnconstrained;
	let ic = crate::mk::cert_params(&ispec)?.self_signed(&ik).map_err(|e| e.to_string())?;
	let cert = crate::mk::cert_params(&CertSpec::minimal())?.signed_by(&parsed, &ic, &ik).map_err(|e| format!("issuing for a parsed public key: {e}"))?;
	let (d, _) = decode_cert(cert.der())?;
	if d.spki.raw != spki {
		return Err("a certificate issued for a parsed SubjectPublicKeyInfo embeds another document".into());
	}
	Ok(())
}

fn synth_spki_cases(_: &RunCfg) -> Vec<SynthSpki> {
	let mut v = Vec::new();
	for alg in keys::available_algs() {
		if matches!(alg, KeyAlg::Rsa3072 | KeyAlg::Rsa4096 | KeyAlg::Rsa6144) {
			continue;
		}
		for first in [0x00u8, 0x01, 0x02, 0x03, 0x04, 0x30, 0x7f, 0x80, 0xff] {
			for last in [0x00u8, 0x01, 0x7f, 0x80, 0xff] {
				for fill in [0x00u8, 0x5a, 0xff] {
					v.push(SynthSpki { alg, first, last, fill });
				}
			}
		}
	}
	v
}

pub fn def() -> PropertyDef {
	PropertyDef {
		id: "C11",
		rule: "Exhaustive matrix: every fixture key (OpenSSL-generated PKCS#8 v1 for RSA-2048/3072/4096, P-256/384/521, Ed25519; SEC1 / PKCS#1 variants) x 9 loading entry points x every public algorithm for the explicit ones, matching and mismatching; keys generated by rcgen under this back end, exported as DER or PEM and reloaded through every entry point. Oracle: same raw public key and SPKI (OpenSSL's encoding is the reference), same key family, algorithm as told/determined, a CSR signed by the reloaded key verifies under the original public key (OpenSSL), save-and-load-again, mismatched pairs are Err and never panic; exported SPKI has the RFC AlgorithmIdentifier, decodes in OpenSSL to the same key and parses back, and its PEM export is the same bytes under the PUBLIC KEY label; algorithm equality/hash/from_oid over all pairs of statics. Non-trivial = entry point other than try_from(&[u8]), legacy encoding, or mismatched pair.",
		assumptions: vec!["OpenSSL key parsing, SPKI encoding and signature verification", "RSA keys are fixtures (ring cannot generate RSA); aws-lc-rs RSA generation is sampled sparsely because of its cost"],
		subs: vec![
			sweep_sub("fixture-matrix", matrix, check_matrix),
			prop_sub("fresh", 15_000, 100_000, fresh_case, check_fresh),
			sweep_sub("spki-sweep", |_| {
				let mut v = Vec::new();
				for alg in keys::available_algs() {
					for idx in 0..keys::fixtures().pools[&alg].len() as u8 {
						for remote in [false, true] {
							v.push(KeySpec { alg, idx, rsa_hash: RsaHash::Sha384, remote });
						}
					}
				}
				v
			}, check_spki),
			sweep_sub("synthetic-spki-sweep", synth_spki_cases, check_synth_spki),
			sweep_sub("algo-pairs", |_| {
				let n = algos().len() as u8;
				(0..n).flat_map(|a| (0..n).map(move |b| AlgoPair { a, b })).collect()
			}, check_algo_pair),
		],
	}
}
