//! C05 — structural MUSTs of the RFC 5280 / RFC 2986 profile.

use proptest::prelude::*;
use serde::{Deserialize, Serialize};

use crate::gen::{self, CertGenOpts};
use crate::props::common::*;
use crate::runner::*;
use crate::spec::*;
use crate::x509::{self, ExtValue};

pub const CONFORMANT: CertGenOpts = CertGenOpts {
	moderate_oids: false,
	dirname_subtrees: true,
	plain_times: false,
	standard_ekus: false,
	same_oid_dn: true,
	conformant: true,
};

fn check_auto_serial(serial: &[u8]) -> Result<(), String> {
	if serial.is_empty() || serial.len() > 20 {
		return Err(format!("automatic serial occupies {} octets (must be 1..=20)", serial.len()));
	}
	if serial[0] & 0x80 != 0 {
		return Err(format!("automatic serial {} is negative", crate::der::hex(serial)));
	}
	if serial.iter().all(|&b| b == 0) {
		return Err("automatic serial is zero".into());
	}
	Ok(())
}

pub fn check_cert_profile(c: &x509::Cert, spec: &CertSpec) -> Result<(), String> {
	if spec.serial.is_none() {
		check_auto_serial(&c.serial)?;
	}
	if let Some(exts) = &c.extensions {
		if c.version != Some(2) {
			return Err(format!("certificate carries extensions but its version field is {:?} (v3 = 2 required)", c.version));
		}
		let custom_oids: Vec<&Vec<u64>> = spec.custom_exts.iter().map(|c| &c.oid).collect();
		let mut seen: Vec<&Vec<u64>> = Vec::new();
		for e in exts {
			if custom_oids.contains(&&e.oid) {
				continue;
			}
			if seen.contains(&&e.oid) {
				return Err(format!("extension {:?} occurs twice", e.oid));
			}
			seen.push(&e.oid);
			match &e.value {
				ExtValue::San(_) => {
					let empty_subject = spec.dn.effective().is_empty();
					if e.critical != empty_subject {
						return Err(format!("subjectAltName critical={} but subject empty={}", e.critical, empty_subject));
					}
				},
				ExtValue::BasicConstraints { ca: true, .. } => {
					if !e.critical {
						return Err("basicConstraints of a CA certificate is not critical".into());
					}
				},
				ExtValue::NameConstraints { permitted, excluded, .. } => {
					if !e.critical {
						return Err("nameConstraints is not critical".into());
					}
					if permitted.is_empty() && excluded.is_empty() {
						return Err("empty nameConstraints value is encoded".into());
					}
				},
				ExtValue::Ski(_) | ExtValue::Aki { .. } => {
					if e.critical {
						return Err(format!("key identifier extension {:?} is critical", e.oid));
					}
				},
				_ => {},
			}
		}
	}
	if let Some(nc) = &spec.name_constraints {
		if nc.permitted.is_empty() && nc.excluded.is_empty() && !x509::find_ext(&c.extensions, x509::OID_NC).is_empty() {
			return Err("empty nameConstraints value is encoded".into());
		}
	}
	// The MUSTs speak of "CA certificates", "a certificate with an empty subject": what the
	// certificate is follows from the parameters, so the extension each clause is about must be
	// there in the first place (a clause is not met by leaving the extension out).
	if matches!(spec.is_ca, IsCaSpec::CaUnconstrained | IsCaSpec::CaConstrained(_)) {
		let bc = x509::find_ext(&c.extensions, x509::OID_BC);
		if !matches!(bc.as_slice(), [e] if e.critical && matches!(e.value, ExtValue::BasicConstraints { ca: true, .. })) {
			return Err(format!("a CA certificate must carry one critical basicConstraints with cA TRUE (found {})", bc.len()));
		}
		let ski = x509::find_ext(&c.extensions, x509::OID_SKI);
		if !matches!(ski.as_slice(), [e] if !e.critical) {
			return Err(format!("a CA certificate must carry one non-critical subjectKeyIdentifier (found {})", ski.len()));
		}
	}
	if !spec.sans.is_empty() {
		let san = x509::find_ext(&c.extensions, x509::OID_SAN);
		let empty_subject = spec.dn.effective().is_empty();
		if !matches!(san.as_slice(), [e] if e.critical == empty_subject) {
			return Err(format!("requested subjectAltName must be present once, critical={empty_subject} (found {})", san.len()));
		}
	}
	if matches!(&spec.name_constraints, Some(nc) if !(nc.permitted.is_empty() && nc.excluded.is_empty())) {
		let nc = x509::find_ext(&c.extensions, x509::OID_NC);
		if !matches!(nc.as_slice(), [e] if e.critical) {
			return Err(format!("requested nameConstraints must be present once and critical (found {})", nc.len()));
		}
	}
	if spec.use_aki {
		let aki = x509::find_ext(&c.extensions, x509::OID_AKI);
		if !matches!(aki.as_slice(), [e] if !e.critical) {
			return Err(format!("requested authorityKeyIdentifier must be present once and non-critical (found {})", aki.len()));
		}
	}
	Ok(())
}

pub fn check_cert_case(case: &CertCase, info: &mut CaseInfo) -> Result<(), String> {
	info.nontrivial = !case.spec.ext_fields_set().is_empty();
	info.class(format!("sparsity:{}", gen::sparsity_class(&case.spec)));
	if case.spec.dn.effective().is_empty() {
		info.class("empty-subject");
	}
	if matches!(&case.spec.name_constraints, Some(nc) if nc.permitted.is_empty() && nc.excluded.is_empty()) {
		info.class("empty-nc");
	}
	let built = build_cert(case)?;
	let (c, _) = decode_cert(built.cert.der())?;
	check_cert_profile(&c, &case.spec)
}

/// A subject key derived deterministically from generated seed bytes (so the automatic
/// serial, a hash of the key, is explored over many keys and a failure is replayable).
#[derive(Clone, Debug, Serialize, Deserialize, PartialEq, Eq, Hash)]
pub struct FreshKeyCase {
	/// 0 = Ed25519, 1 = P-256, 2 = P-384
	pub alg: u8,
	pub seed: Hex,
}

pub fn pkcs8_from_seed(alg: u8, seed: &[u8]) -> Result<(Vec<u8>, &'static str), String> {
	use openssl::bn::{BigNum, BigNumContext};
	use openssl::ec::{EcGroup, EcKey, EcPoint};
	use openssl::nid::Nid;
	use openssl::pkey::PKey;
	match alg {
		0 => {
			let mut d = crate::der::unhex("302e020100300506032b657004220420").unwrap();
			let mut s = seed.to_vec();
			s.resize(32, 0x5a);
			d.extend(&s[..32]);
			Ok((d, "ed25519"))
		},
		_ => {
			let (nid, name) = if alg == 1 { (Nid::X9_62_PRIME256V1, "p256") } else { (Nid::SECP384R1, "p384") };
			let group = EcGroup::from_curve_name(nid).map_err(|e| e.to_string())?;
			let mut ctx = BigNumContext::new().map_err(|e| e.to_string())?;
			let mut order = BigNum::new().map_err(|e| e.to_string())?;
			group.order(&mut order, &mut ctx).map_err(|e| e.to_string())?;
			let raw = BigNum::from_slice(seed).map_err(|e| e.to_string())?;
			let mut order_m1 = BigNum::new().map_err(|e| e.to_string())?;
			order_m1.checked_sub(&order, &BigNum::from_u32(1).unwrap()).map_err(|e| e.to_string())?;
			let mut d = BigNum::new().map_err(|e| e.to_string())?;
			d.nnmod(&raw, &order_m1, &mut ctx).map_err(|e| e.to_string())?;
			let mut d1 = BigNum::new().map_err(|e| e.to_string())?;
			d1.checked_add(&d, &BigNum::from_u32(1).unwrap()).map_err(|e| e.to_string())?;
			let mut point = EcPoint::new(&group).map_err(|e| e.to_string())?;
			point.mul_generator(&group, &d1, &ctx).map_err(|e| e.to_string())?;
			let key = EcKey::from_private_components(&group, &d1, &point).map_err(|e| e.to_string())?;
			let pkey = PKey::from_ec_key(key).map_err(|e| e.to_string())?;
			Ok((pkey.private_key_to_pkcs8().map_err(|e| e.to_string())?, name))
		},
	}
}

#[cfg(feature = "crypto")]
pub fn check_fresh_key(case: &FreshKeyCase, info: &mut CaseInfo) -> Result<(), String> {
	let (pk8, name) = pkcs8_from_seed(case.alg % 3, &case.seed.0)?;
	let key = rcgen::KeyPair::try_from(pk8.as_slice()).map_err(|e| format!("derived {name} key rejected: {e}"))?;
	let top = openssl::sha::sha256(key.public_key_raw())[0] & 0x80 != 0;
	info.nontrivial = true;
	info.class(format!("hash-top-bit:{}", top as u8));
	info.class(format!("alg:{name}"));
	let cert = rcgen::CertificateParams::default()
		.self_signed(&key)
		.map_err(|e| format!("self_signed failed: {e}"))?;
	let (c, _) = decode_cert(cert.der())?;
	check_auto_serial(&c.serial)
}

#[cfg(not(feature = "crypto"))]
pub fn check_fresh_key(_: &FreshKeyCase, _: &mut CaseInfo) -> Result<(), String> {
	Ok(())
}

// ---------------------------------------------------------------------------------------------
// The automatic serial is cut from SHA-256 of the subject's public key bytes. A remote key's
// public key is opaque to rcgen, so 32-byte keys can be *searched* for any digest prefix: the sweep
// covers every value of the two leading digest octets (which decide sign handling, leading-zero
// stripping and the encoded length), thorough also rare three-octet patterns.

#[derive(Clone, Copy, Debug, Serialize, Deserialize, PartialEq, Eq, Hash)]
pub struct SerialKeyCase {
	pub counter: u64,
}

pub fn serial_sweep_public(counter: u64) -> Vec<u8> {
	let mut v = b"rv automatic serial sweep\0\0\0\0\0\0\0".to_vec();
	v.truncate(24);
	v.extend(counter.to_be_bytes());
	v
}

pub fn serial_sweep_cases(cfg: &RunCfg) -> Vec<SerialKeyCase> {
	let mut found: Vec<Option<u64>> = vec![None; 65536];
	let mut left = 65536usize;
	let mut c = 0u64;
	while left > 0 {
		let d = openssl::sha::sha256(&serial_sweep_public(c));
		let slot = &mut found[(d[0] as usize) << 8 | d[1] as usize];
		if slot.is_none() {
			*slot = Some(c);
			left -= 1;
		}
		c += 1;
	}
	let mut v: Vec<SerialKeyCase> = found.into_iter().map(|c| SerialKeyCase { counter: c.unwrap() }).collect();
	// digests beginning (00|80) 00 xx with xx at a sign/zero boundary: about 2^-21 of all keys
	let span: u64 = if cfg.tier == Tier::Thorough { 1 << 27 } else { 1 << 24 };
	let threads = 16u64;
	let extra: Vec<u64> = std::thread::scope(|s| {
		let hs: Vec<_> = (0..threads)
			.map(|t| {
				s.spawn(move || {
					let mut out = Vec::new();
					let mut c = (1u64 << 32) + t;
					while c < (1u64 << 32) + span {
						let d = openssl::sha::sha256(&serial_sweep_public(c));
						if d[0] & 0x7f == 0 && d[1] == 0 && matches!(d[2], 0x00 | 0x01 | 0x7f | 0x80 | 0xff) {
							out.push(c);
						}
						c += threads;
					}
					out
				})
			})
			.collect();
		hs.into_iter().flat_map(|h| h.join().unwrap()).collect()
	});
	let mut extra = extra;
	extra.sort();
	v.extend(extra.into_iter().map(|counter| SerialKeyCase { counter }));
	v
}

#[cfg(feature = "crypto")]
pub fn serial_sweep_cert(c: &SerialKeyCase, info: &mut CaseInfo) -> Result<Vec<u8>, String> {
	let public = serial_sweep_public(c.counter);
	let d = openssl::sha::sha256(&public);
	info.nontrivial = true;
	info.class(format!(
		"digest-prefix:{}",
		match (d[0], d[1]) {
			(0x00, 0x00) | (0x80, 0x00) => "two-zero-octets-after-masking",
			(0x00, x) | (0x80, x) if x < 0x80 => "zero-octet-then-positive",
			(0x00, _) | (0x80, _) => "zero-octet-then-high-bit",
			(x, _) if x & 0x80 != 0 => "top-bit-set",
			_ => "plain",
		}
	));
	let key = crate::keys::opaque_key(public, &rcgen::PKCS_ED25519)?;
	let cert = rcgen::CertificateParams::default().self_signed(&key).map_err(|e| format!("self_signed failed: {e}"))?;
	Ok(cert.der().to_vec())
}

#[cfg(feature = "crypto")]
pub fn check_serial_sweep(c: &SerialKeyCase, info: &mut CaseInfo) -> Result<(), String> {
	let der = serial_sweep_cert(c, info)?;
	let (cert, _) = decode_cert(&der)?;
	check_auto_serial(&cert.serial)
}

#[cfg(not(feature = "crypto"))]
pub fn check_serial_sweep(_: &SerialKeyCase, _: &mut CaseInfo) -> Result<(), String> {
	Ok(())
}

pub fn check_crl_case(case: &CrlCase, info: &mut CaseInfo) -> Result<(), String> {
	info.nontrivial = case.crl.revoked.is_empty() || case.crl.idp.is_some() || !case.crl.revoked.is_empty();
	info.class(if case.crl.revoked.is_empty() { "crl:no-entries" } else { "crl:entries" });
	info.class(if case.crl.idp.is_some() { "crl:idp" } else { "crl:no-idp" });
	let built = build_crl(case)?.map_err(|e| format!("CRL signed_by refused a valid request: {e}"))?;
	let (c, _) = decode_crl(built.crl.der())?;
	if c.version != Some(1) {
		return Err(format!("CRL version field {:?} (v2 = 1 required)", c.version));
	}
	if c.issuer.rdns.is_empty() && !case.issuer.spec.dn.effective().is_empty() {
		return Err("CRL issuer is empty".into());
	}
	if c.next_update.is_none() {
		return Err("CRL has no nextUpdate".into());
	}
	let exts = c.extensions.as_ref().ok_or("CRL has no extensions")?;
	let aki: Vec<_> = exts.iter().filter(|e| matches!(e.value, ExtValue::Aki { .. })).collect();
	let num: Vec<_> = exts.iter().filter(|e| matches!(e.value, ExtValue::CrlNumber(_))).collect();
	let idp: Vec<_> = exts.iter().filter(|e| matches!(e.value, ExtValue::Idp { .. })).collect();
	if aki.len() != 1 || aki[0].critical {
		return Err(format!("CRL must carry exactly one non-critical AKI (found {}, critical={:?})", aki.len(), aki.first().map(|e| e.critical)));
	}
	if num.len() != 1 || num[0].critical {
		return Err(format!("CRL must carry exactly one non-critical CRL number (found {})", num.len()));
	}
	if case.crl.idp.is_some() && (idp.len() != 1 || !idp[0].critical) {
		return Err("requested issuingDistributionPoint must be present once and critical".into());
	}
	if case.crl.revoked.is_empty() && c.revoked.is_some() {
		return Err("revokedCertificates is present although nothing is revoked".into());
	}
	if matches!(&c.revoked, Some(v) if v.is_empty()) {
		return Err("revokedCertificates is present but lists nothing".into());
	}
	if !case.crl.revoked.is_empty() && c.revoked.is_none() {
		return Err("revokedCertificates is absent although entries were given".into());
	}
	Ok(())
}

pub fn check_csr_case(case: &CsrCase, info: &mut CaseInfo) -> Result<(), String> {
	info.nontrivial = true;
	info.class(if case.spec.ext_fields_set().is_empty() && case.attrs.is_empty() { "csr:no-attributes" } else { "csr:attributes" });
	let (csr, _) = build_csr(case)?;
	let (c, _) = decode_csr(csr.der())?;
	if c.version != 0 {
		return Err(format!("CSR version {} (0 required)", c.version));
	}
	if !c.attributes_present {
		return Err("CSR attributes field is absent".into());
	}
	if c.ext_requests.len() > 1 {
		return Err(format!("CSR carries {} extension requests", c.ext_requests.len()));
	}
	Ok(())
}

/// The shape of a parameter object as far as the profile predicates care (which extension-bearing
/// fields are set, CA or not, empty subject or not); values are placeholders.
fn shape_of(p: &rcgen::CertificateParams) -> CertSpec {
	let mut spec = CertSpec::minimal();
	spec.serial = Some(Hex(vec![1]));
	spec.sans = p.subject_alt_names.iter().map(|_| SanSpec::Dns(String::new())).collect();
	spec.name_constraints = p.name_constraints.as_ref().map(|n| NcSpec {
		permitted: n.permitted_subtrees.iter().map(|_| SubtreeSpec::Dns(String::new())).collect(),
		excluded: n.excluded_subtrees.iter().map(|_| SubtreeSpec::Dns(String::new())).collect(),
	});
	spec.is_ca = match p.is_ca {
		rcgen::IsCa::NoCa => IsCaSpec::NoCa,
		rcgen::IsCa::ExplicitNoCa => IsCaSpec::ExplicitNoCa,
		rcgen::IsCa::Ca(rcgen::BasicConstraints::Unconstrained) => IsCaSpec::CaUnconstrained,
		rcgen::IsCa::Ca(rcgen::BasicConstraints::Constrained(n)) => IsCaSpec::CaConstrained(n),
	};
	spec.use_aki = p.use_authority_key_identifier_extension;
	spec.custom_exts = vec![];
	spec.dn = if p.distinguished_name.iter().next().is_none() { DnSpec(vec![]) } else { CertSpec::minimal().dn };
	spec
}

/// A request (rcgen-made or foreign) is parsed, the CA adjusts the parameters the way CAs do (makes
/// it an explicit end entity or a CA, asks for an AKI) and issues: the certificate must follow the
/// profile, in particular carry no extension twice.
#[derive(Clone, Debug, Serialize, Deserialize, PartialEq, Eq, Hash)]
pub struct CsrIssuedCase {
	pub csr: crate::props::c06::ForeignCsr,
	pub is_ca: IsCaSpec,
	pub use_aki: bool,
	pub kid: KidSpec,
}

pub fn check_csr_issued(c: &CsrIssuedCase, info: &mut CaseInfo) -> Result<(), String> {
	let bytes = crate::props::c06::forge_foreign(&c.csr)?;
	let Ok(mut parsed) = rcgen::CertificateSigningRequestParams::from_der(&bytes.into()) else {
		info.class("request-refused");
		return Ok(());
	};
	info.nontrivial = true;
	info.class(format!("issued-as:{}", match c.is_ca { IsCaSpec::NoCa => "as-requested", IsCaSpec::ExplicitNoCa => "explicit-end-entity", _ => "ca" }));
	parsed.params.is_ca = crate::mk::is_ca(c.is_ca);
	parsed.params.use_authority_key_identifier_extension = c.use_aki;
	parsed.params.key_identifier_method = crate::mk::kid(&c.kid)?;
	parsed.params.serial_number = Some(rcgen::SerialNumber::from_slice(&[0x2a]));
	let spec = shape_of(&parsed.params);
	let ik = crate::keys::make_key(&KeySpec { alg: KeyAlg::Ed25519, idx: 2, rsa_hash: RsaHash::Sha256, remote: !cfg!(feature = "crypto") })?;
	let mut ispec = CertSpec::minimal();
	ispec.is_ca = IsCaSpec::CaUnconstrained;
	let ic = crate::mk::cert_params(&ispec)?.self_signed(&ik).map_err(|e| e.to_string())?;
	let cert = parsed.signed_by(&ic, &ik).map_err(|e| format!("issuing from an accepted request failed: {e}"))?;
	let (d, _) = decode_cert(cert.der())?;
	check_cert_profile(&d, &spec).map_err(|e| format!("certificate issued from an accepted request: {e}"))
}

/// Parameters imported from a foreign CA certificate (whose extensions may carry any criticality)
/// and used to issue: the public fields of such parameters are conformant, so the output must be.
#[derive(Clone, Debug, Serialize, Deserialize, PartialEq, Eq, Hash)]
pub struct ImportedCase {
	pub ca: crate::props::c17::ForeignCa,
	pub flip: u16,
	pub self_signed: bool,
}

pub fn check_imported(c: &ImportedCase, info: &mut CaseInfo) -> Result<(), String> {
	let der = crate::props::c17::forge_ca_with(&c.ca, c.flip)?;
	if !crate::forge::openssl_accepts_cert(&der, &c.ca.key) {
		return Err("INTERNAL: OpenSSL does not accept the forged CA certificate".into());
	}
	let Ok(imported) = rcgen::CertificateParams::from_ca_cert_der(&der.clone().into()) else {
		info.class("import-refused");
		return Ok(());
	};
	info.nontrivial = true;
	info.class(if c.flip != 0 { "foreign-criticality:unusual" } else { "foreign-criticality:usual" });
	// what the imported parameters say (their public fields), as a spec for the predicates
	let spec = shape_of(&imported);
	let key = crate::keys::make_key(&c.ca.key)?;
	let cert = if c.self_signed {
		imported.self_signed(&key)
	} else {
		let ik = crate::keys::make_key(&KeySpec { alg: KeyAlg::Ed25519, idx: 2, rsa_hash: RsaHash::Sha256, remote: !cfg!(feature = "crypto") })?;
		let mut ispec = CertSpec::minimal();
		ispec.is_ca = IsCaSpec::CaUnconstrained;
		let ic = crate::mk::cert_params(&ispec)?.self_signed(&ik).map_err(|e| e.to_string())?;
		imported.signed_by(&key, &ic, &ik)
	}
	.map_err(|e| format!("issuing from imported parameters failed: {e}"))?;
	let (d, _) = decode_cert(cert.der())?;
	check_cert_profile(&d, &spec).map_err(|e| format!("certificate issued from parameters imported from a foreign CA: {e}"))
}

/// conformant cert cases plus the `Some(empty)` name-constraints shape
fn conformant_cert_case() -> BoxedStrategy<CertCase> {
	(cert_case(CONFORMANT, true), 0u8..10)
		.prop_map(|(mut c, r)| {
			if r == 0 {
				c.spec.name_constraints = Some(NcSpec::default());
			}
			c
		})
		.boxed()
}

pub fn def() -> PropertyDef {
	PropertyDef {
		id: "C05",
		rule: "Profile-conformant parameter sets (explicit serials positive/non-zero/<= 20 octets, non-empty URI lists, custom OIDs distinct from standard ones) over the C02/C07/C08 spaces -> harness decoder -> predicates for each structural MUST; automatic serial explored over subject keys derived deterministically from generated seeds (Ed25519, P-256, P-384) and, exhaustively, over all 65 536 values of the two leading octets of the key digest it is cut from (32-byte opaque remote keys searched for each prefix; plus rare three-octet patterns such as 00 00 00 / 80 00 7f). Parameters imported from foreign CA certificates whose extensions carry arbitrary criticality flags are used to issue as well (their public fields are conformant, so the output must be). Requests (foreign ones included) are parsed, adjusted by the issuing CA (explicit end entity / CA / AKI / key-identifier method) and issued from under the same predicates. Each clause also requires the extension it speaks of to be present when the parameters make the certificate a CA / give it alternative names / name constraints / an AKI. Non-trivial = at least one extension-bearing field (certificates), every CRL/CSR/fresh-key case; the class with SHA-256 top bit set is reported.",
		assumptions: vec!["the harness decoder; OpenSSL EC arithmetic to derive fresh keys from seeds"],
		subs: vec![
			prop_sub("cert", 60_000, 800_000, conformant_cert_case, check_cert_case),
			prop_sub("auto-serial", 30_000, 300_000, || {
				(0u8..3, proptest::collection::vec(any::<u8>(), 32)).prop_map(|(alg, seed)| FreshKeyCase { alg, seed: Hex(seed) }).boxed()
			}, check_fresh_key),
			sweep_sub("auto-serial-digest-sweep", serial_sweep_cases, check_serial_sweep),
			prop_sub("imported-then-issued", 16_000, 200_000, || {
				(crate::props::c17::foreign_ca(), prop_oneof![1 => Just(0u16), 3 => any::<u16>()], any::<bool>())
					.prop_map(|(ca, flip, self_signed)| ImportedCase { ca, flip, self_signed })
					.boxed()
			}, check_imported),
			prop_sub("csr-issued", 16_000, 200_000, || {
				(crate::props::c06::foreign_csr_strategy(), gen::is_ca_any(), any::<bool>(), gen::kid())
					.prop_map(|(csr, is_ca, use_aki, kid)| CsrIssuedCase { csr, is_ca, use_aki, kid })
					.boxed()
			}, check_csr_issued),
			prop_sub("crl", 25_000, 300_000, || crl_case(false, true), check_crl_case),
			prop_sub("csr", 25_000, 300_000, || csr_case(true), check_csr_case),
		],
	}
}
