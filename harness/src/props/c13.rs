//! C13 — ASN.1 string types admit exactly their alphabet and encode losslessly.

use std::str::FromStr;

use proptest::prelude::*;
use serde::{Deserialize, Serialize};

use rcgen::string::{BmpString, Ia5String, PrintableString, TeletexString, UniversalString};

use crate::gen;
use crate::keys;
use crate::model;
use crate::props::common::*;
use crate::runner::*;
use crate::spec::*;

const RESTRICTED: [StrKind; 5] = [StrKind::Printable, StrKind::Ia5, StrKind::Teletex, StrKind::Bmp, StrKind::Universal];

/// Calls all three constructors; returns the stored bytes if accepted. They must agree.
fn construct(kind: StrKind, s: &str) -> Result<Option<Vec<u8>>, String> {
	macro_rules! three {
		($t:ty, $bytes:expr) => {{
			let a = <$t>::try_from(s);
			let b = <$t>::try_from(s.to_string());
			let c = <$t>::from_str(s);
			if a.is_ok() != b.is_ok() || a.is_ok() != c.is_ok() {
				return Err(format!(
					"{:?}: constructors disagree on {:?}: TryFrom<&str>={} TryFrom<String>={} FromStr={}",
					kind, s, a.is_ok(), b.is_ok(), c.is_ok()
				));
			}
			match (a, b, c) {
				(Ok(a), Ok(b), Ok(c)) => {
					let f: fn(&$t) -> Vec<u8> = $bytes;
					if f(&a) != f(&b) || f(&a) != f(&c) {
						return Err(format!("{:?}: constructors store different bytes for {:?}", kind, s));
					}
					Ok(Some(f(&a)))
				},
				_ => Ok(None),
			}
		}};
	}
	match kind {
		StrKind::Printable => three!(PrintableString, |x| x.as_str().as_bytes().to_vec()),
		StrKind::Ia5 => three!(Ia5String, |x| x.as_str().as_bytes().to_vec()),
		StrKind::Teletex => three!(TeletexString, |x| x.as_bytes().to_vec()),
		StrKind::Bmp => three!(BmpString, |x| x.as_bytes().to_vec()),
		StrKind::Universal => {
			// UniversalString has no FromStr
			let a = UniversalString::try_from(s);
			let b = UniversalString::try_from(s.to_string());
			if a.is_ok() != b.is_ok() {
				return Err(format!("UniversalString: constructors disagree on {:?}", s));
			}
			match (a, b) {
				(Ok(a), Ok(b)) => {
					if a.as_bytes() != b.as_bytes() {
						return Err(format!("UniversalString: constructors store different bytes for {:?}", s));
					}
					Ok(Some(a.as_bytes().to_vec()))
				},
				_ => Ok(None),
			}
		},
		StrKind::Utf8 => Ok(Some(s.as_bytes().to_vec())),
	}
}

fn check_text(kind: StrKind, s: &str) -> Result<bool, String> {
	let want = s.chars().all(|c| kind.admits(c));
	let got = construct(kind, s)?;
	match (&got, want) {
		(Some(_), false) => return Err(format!("{kind:?} accepts {:?}, which contains a character outside its alphabet", s)),
		(None, true) => return Err(format!("{kind:?} rejects {:?}, all of whose characters are in its alphabet", s)),
		_ => {},
	}
	if let Some(bytes) = got {
		let expect = kind.encode(s);
		if bytes != expect {
			return Err(format!("{kind:?} stores {} for {:?}; the transfer encoding is {}", crate::der::hex(&bytes), s, crate::der::hex(&expect)));
		}
		// decoding the stored bytes (independent decoder) returns the text
		let l = crate::der::Lints::new();
		let back = crate::der::string_text(kind.tag(), &bytes, &l, "stored");
		if back.as_deref() != Some(s) || !l.is_empty() {
			return Err(format!("{kind:?}: stored bytes {} do not decode back to {:?}", crate::der::hex(&bytes), s));
		}
	}
	Ok(want)
}

/// A chunk of the code space: every scalar value in [start, end) as a one-character string.
#[derive(Clone, Debug, Serialize, Deserialize, PartialEq, Eq, Hash)]
pub struct ScalarChunk {
	pub kind: StrKind,
	pub start: u32,
	pub end: u32,
}

pub fn check_scalar_chunk(c: &ScalarChunk, info: &mut CaseInfo) -> Result<(), String> {
	let mut n = 0u64;
	let mut boundary = 0u64;
	let mut buf = [0u8; 4];
	for u in c.start..c.end {
		let Some(ch) = char::from_u32(u) else { continue };
		let s: &str = ch.encode_utf8(&mut buf);
		check_text(c.kind, s)?;
		n += 1;
		// near an alphabet boundary: acceptance differs from a neighbour within 2 code points
		let a = c.kind.admits(ch);
		if (1..=2).any(|d| {
			char::from_u32(u.wrapping_sub(d)).map_or(false, |x| c.kind.admits(x) != a) || char::from_u32(u + d).map_or(false, |x| c.kind.admits(x) != a)
		}) {
			boundary += 1;
		}
	}
	info.weight = n;
	info.nontrivial = boundary > 0;
	info.nontrivial_weight = boundary.saturating_sub(1);
	info.class(format!("scalars:{:?}", c.kind));
	Ok(())
}

fn scalar_chunks(_cfg: &RunCfg) -> Vec<ScalarChunk> {
	let mut v = Vec::new();
	for kind in RESTRICTED {
		let mut s = 0u32;
		while s < 0x110000 {
			let e = (s + 0x1000).min(0x110000);
			v.push(ScalarChunk { kind, start: s, end: e });
			s = e;
		}
	}
	v
}

/// Byte-level constructor cases.
#[derive(Clone, Debug, Serialize, Deserialize, PartialEq, Eq, Hash)]
pub enum BytesCase {
	/// every single UTF-16 code unit in [start, end), and each followed/preceded by a fixed unit
	Utf16Units { start: u32, end: u32 },
	/// every single UTF-32 unit in [start, end)
	Utf32Units { start: u32, end: u32 },
	Utf16(Hex),
	Utf32(Hex),
}

fn utf16_reference(bytes: &[u8]) -> bool {
	if bytes.len() % 2 != 0 {
		return false;
	}
	let units: Vec<u16> = bytes.chunks(2).map(|c| u16::from_be_bytes([c[0], c[1]])).collect();
	// well-formed UCS-2 text of the BMPString alphabet: no surrogate code units at all (a pair would
	// denote a character outside the BMP), and not U+FFFF
	units.iter().all(|&u| !(0xd800..=0xdfff).contains(&u) && u != 0xffff)
}

fn utf32_reference(bytes: &[u8]) -> bool {
	bytes.len() % 4 == 0 && bytes.chunks(4).all(|c| char::from_u32(u32::from_be_bytes([c[0], c[1], c[2], c[3]])).is_some())
}

fn check_utf16(bytes: &[u8]) -> Result<(), String> {
	let want = utf16_reference(bytes);
	match (BmpString::from_utf16be(bytes.to_vec()), want) {
		(Ok(s), true) => {
			if s.as_bytes() != bytes {
				return Err(format!("from_utf16be({}) stores different bytes", crate::der::hex(bytes)));
			}
			Ok(())
		},
		(Err(_), false) => Ok(()),
		(Ok(_), false) => Err(format!("from_utf16be accepts {} (not a well-formed BMP text)", crate::der::hex(bytes))),
		(Err(_), true) => Err(format!("from_utf16be rejects {} (well-formed BMP text)", crate::der::hex(bytes))),
	}
}

fn check_utf32(bytes: &[u8]) -> Result<(), String> {
	let want = utf32_reference(bytes);
	match (UniversalString::from_utf32be(bytes.to_vec()), want) {
		(Ok(s), true) => {
			if s.as_bytes() != bytes {
				return Err(format!("from_utf32be({}) stores different bytes", crate::der::hex(bytes)));
			}
			Ok(())
		},
		(Err(_), false) => Ok(()),
		(Ok(_), false) => Err(format!("from_utf32be accepts {} (not well-formed UTF-32)", crate::der::hex(bytes))),
		(Err(_), true) => Err(format!("from_utf32be rejects {} (well-formed UTF-32)", crate::der::hex(bytes))),
	}
}

pub fn check_bytes_case(c: &BytesCase, info: &mut CaseInfo) -> Result<(), String> {
	info.nontrivial = true;
	match c {
		BytesCase::Utf16Units { start, end } => {
			let mut n = 0;
			for u in *start..*end {
				let b = (u as u16).to_be_bytes();
				check_utf16(&b)?;
				// as a pair with a high surrogate before / a low surrogate after / an ordinary unit
				check_utf16(&[0xd8, 0x00, b[0], b[1]])?;
				check_utf16(&[b[0], b[1], 0xdc, 0x00])?;
				check_utf16(&[0x00, 0x41, b[0], b[1]])?;
				// odd lengths
				check_utf16(&[b[0], b[1], 0x00])?;
				check_utf16(&b[..1])?;
				n += 6;
			}
			info.weight = n;
			info.nontrivial_weight = (*end - *start) as u64;
			info.class("utf16-units");
		},
		BytesCase::Utf32Units { start, end } => {
			let mut n = 0;
			for u in *start..*end {
				let b = u.to_be_bytes();
				check_utf32(&b)?;
				n += 1;
				if u % 257 == 0 {
					check_utf32(&[0, 0, 0, 0x41, b[0], b[1], b[2], b[3]])?;
					for l in 0..4 {
						check_utf32(&b[..l])?;
					}
					check_utf32(&[b[0], b[1], b[2], b[3], 0])?;
					n += 6;
				}
			}
			info.weight = n;
			info.nontrivial_weight = (*end - *start) as u64 / 64;
			info.class("utf32-units");
		},
		BytesCase::Utf16(h) => {
			info.class(format!("utf16-random:{}", if utf16_reference(&h.0) { "valid" } else { "invalid" }));
			check_utf16(&h.0)?
		},
		BytesCase::Utf32(h) => {
			info.class(format!("utf32-random:{}", if utf32_reference(&h.0) { "valid" } else { "invalid" }));
			check_utf32(&h.0)?
		},
	}
	Ok(())
}

fn unit_chunks(_cfg: &RunCfg) -> Vec<BytesCase> {
	let mut v = Vec::new();
	let mut s = 0u32;
	while s < 0x10000 {
		v.push(BytesCase::Utf16Units { start: s, end: s + 0x800 });
		s += 0x800;
	}
	let mut s = 0u32;
	while s < 0x110400 {
		v.push(BytesCase::Utf32Units { start: s, end: (s + 0x4000).min(0x110400) });
		s += 0x4000;
	}
	// high values
	for base in [0x7fff_f000u32, 0x8000_0000, 0xffff_f000, 0x00d7_f000, 0x0100_0000, 0xd800_0000] {
		v.push(BytesCase::Utf32Units { start: base, end: base.saturating_add(0xfff) });
	}
	v
}

fn random_bytes_case() -> BoxedStrategy<BytesCase> {
	let unit16 = prop_oneof![
		4 => any::<u16>(),
		2 => 0xd800u16..=0xdfff,
		1 => prop::sample::select(vec![0xfffeu16, 0xffff, 0x0000, 0xd7ff, 0xe000]),
	];
	let unit32 = prop_oneof![
		4 => 0u32..0x110000,
		1 => 0xd800u32..=0xdfff,
		1 => 0x110000u32..0x120000,
		1 => any::<u32>(),
	];
	prop_oneof![
		(proptest::collection::vec(unit16, 0..6), prop::option::weighted(0.15, any::<u8>())).prop_map(|(u, extra)| {
			let mut b: Vec<u8> = u.iter().flat_map(|x| x.to_be_bytes()).collect();
			b.extend(extra);
			BytesCase::Utf16(Hex(b))
		}),
		(proptest::collection::vec(unit32, 0..4), proptest::collection::vec(any::<u8>(), 0..4), prop::bool::weighted(0.2)).prop_map(|(u, extra, add)| {
			let mut b: Vec<u8> = u.iter().flat_map(|x| x.to_be_bytes()).collect();
			if add {
				b.extend(extra);
			}
			BytesCase::Utf32(Hex(b))
		}),
		// long sequences (1..70 units) of well-formed units with zero, one or two ill-formed ones at
		// arbitrary positions: block-wise validators, length-dependent paths
		(1usize..70, proptest::collection::vec((any::<u16>(), 0xd800u16..=0xdfff), 0..3), any::<u64>()).prop_map(|(n, bad, r)| {
			let mut units: Vec<u16> = (0..n).map(|i| 0x41 + ((r >> (i % 32)) as u16).wrapping_add(i as u16) % 0x500).collect();
			for (pos, u) in bad {
				let at = pos as usize % n;
				units[at] = u;
			}
			BytesCase::Utf16(Hex(units.iter().flat_map(|x| x.to_be_bytes()).collect()))
		}),
		(1usize..70, proptest::collection::vec((any::<u16>(), prop_oneof![0xd800u32..=0xdfff, 0x110000u32..0x120000, Just(0xffffffffu32), Just(0x80000000u32)]), 0..3), any::<u64>()).prop_map(|(n, bad, r)| {
			let mut units: Vec<u32> = (0..n).map(|i| 0x41 + ((r >> (i % 32)) as u32).wrapping_add(i as u32) % 0x20000).map(|u| if (0xd800..=0xdfff).contains(&u) { 0x41 } else { u }).collect();
			for (pos, u) in bad {
				let at = pos as usize % n;
				units[at] = u;
			}
			BytesCase::Utf32(Hex(units.iter().flat_map(|x| x.to_be_bytes()).collect()))
		}),
	]
	.boxed()
}

/// Multi-character strings mixing in- and out-of-alphabet characters.
#[derive(Clone, Debug, Serialize, Deserialize, PartialEq, Eq, Hash)]
pub struct MixedCase {
	pub kind: StrKind,
	pub text: String,
}

fn mixed_case() -> BoxedStrategy<MixedCase> {
	prop::sample::select(RESTRICTED.to_vec())
		.prop_flat_map(|kind| {
			let inside = gen::char_for(kind);
			let any_char = gen::char_for(StrKind::Utf8);
			(proptest::collection::vec(prop_oneof![4 => inside, 1 => any_char], 0..12)).prop_map(move |cs| MixedCase { kind, text: cs.into_iter().collect() })
		})
		.boxed()
}

pub fn check_mixed(c: &MixedCase, info: &mut CaseInfo) -> Result<(), String> {
	let accepted = check_text(c.kind, &c.text)?;
	let n_in = c.text.chars().filter(|ch| c.kind.admits(*ch)).count();
	info.nontrivial = n_in > 0 && n_in < c.text.chars().count() || accepted && c.text.chars().count() > 1;
	info.class(format!("{:?}:{}", c.kind, if accepted { "accepted" } else { "rejected" }));
	Ok(())
}

/// Accepted values placed in a subject (distinct custom OIDs) and, for IA5, in SANs.
#[derive(Clone, Debug, Serialize, Deserialize, PartialEq, Eq, Hash)]
pub struct SerialiseCase {
	pub values: Vec<DnValueSpec>,
	/// the first six values go under the six named attribute types, rotated by this (255: custom types only)
	#[serde(default)]
	pub std_offset: u8,
	/// further IA5 texts for the three IA5-typed alternative name forms
	#[serde(default)]
	pub san_texts: Vec<String>,
}

pub fn check_serialise(c: &SerialiseCase, info: &mut CaseInfo) -> Result<(), String> {
	info.nontrivial = true;
	info.weight = c.values.len() as u64;
	info.nontrivial_weight = (c.values.len() as u64).saturating_sub(1);
	for v in &c.values {
		info.class(format!("serialised:{:?}", v.kind));
	}
	let mut spec = CertSpec::minimal();
	spec.kid = KidSpec::Pre(Hex(vec![1]));
	const NAMED: [DnTypeSpec; 6] = [DnTypeSpec::Country, DnTypeSpec::Org, DnTypeSpec::CommonName, DnTypeSpec::Locality, DnTypeSpec::State, DnTypeSpec::OrgUnit];
	spec.dn = DnSpec(
		c.values
			.iter()
			.enumerate()
			.map(|(i, v)| {
				let t = if i < 6 && c.std_offset != 255 { NAMED[(i + c.std_offset as usize) % 6].clone() } else { DnTypeSpec::Custom(vec![1, 3, 6, 1, 4, 1, 55555, i as u64]) };
				(t, v.clone())
			})
			.collect(),
	);
	for t in &c.san_texts {
		spec.sans.push(SanSpec::Dns(t.clone()));
		spec.sans.push(SanSpec::Rfc822(t.clone()));
		spec.sans.push(SanSpec::Uri(t.clone()));
	}
	for v in c.values.iter().filter(|v| v.kind == StrKind::Ia5 && v.admitted()).take(40) {
		spec.sans.push(SanSpec::Dns(v.text.clone()));
		spec.sans.push(SanSpec::Rfc822(v.text.clone()));
		spec.sans.push(SanSpec::Uri(v.text.clone()));
	}
	// the same texts through the convenience constructor: every text that is not an IP literal is
	// an IA5String (dNSName) holding exactly that text
	if !c.san_texts.is_empty() {
		info.class("san-texts-through-CertificateParams::new");
		let p = rcgen::CertificateParams::new(c.san_texts.clone()).map_err(|e| format!("CertificateParams::new refuses the IA5 texts {:?}: {e}", c.san_texts))?;
		if p.subject_alt_names.len() != c.san_texts.len() {
			return Err(format!("CertificateParams::new made {} names from {} texts", p.subject_alt_names.len(), c.san_texts.len()));
		}
		for (t, made) in c.san_texts.iter().zip(&p.subject_alt_names) {
			match (std::net::IpAddr::from_str(t), made) {
				(Ok(a), rcgen::SanType::IpAddress(b)) if a == *b => {},
				(Err(_), rcgen::SanType::DnsName(s)) if s.as_str() == t.as_str() => {},
				_ => return Err(format!("CertificateParams::new turned the text {t:?} into {made:?}")),
			}
		}
	}
	let case = CertCase {
		spec,
		key: KeySpec { alg: KeyAlg::Ed25519, idx: 0, rsa_hash: RsaHash::Sha256, remote: !cfg!(feature = "crypto") },
		pk_source: PkSource::KeyPair,
		issuer: None,
	};
	let built = build_cert(&case).map_err(|e| format!("an accepted string value cannot be serialised: {e}"))?;
	let (cert, lints) = decode_cert(built.cert.der())?;
	if let Some(l) = lints.iter().find(|l| l.contains("alphabet") || l.contains("String")) {
		return Err(format!("serialised string is malformed: {l}"));
	}
	let issuer = issuer_info(&case);
	model::check_cert(&cert, &case.spec, &keys::fixture(&case.key).spki, &issuer)?;
	// the same subject in a certificate issued by a CA whose own name has the same attribute types
	// and the same texts, all as UTF8Strings: the subject's values keep their own string types
	if c.values.len() <= 12 {
		let mut ispec = CertSpec::minimal();
		ispec.is_ca = IsCaSpec::CaUnconstrained;
		ispec.kid = KidSpec::Pre(Hex(vec![2]));
		ispec.dn = DnSpec(case.spec.dn.effective().into_iter().map(|(t, v)| (t, DnValueSpec::new(StrKind::Utf8, v.text))).collect());
		let twin = CertCase { issuer: Some(IssuerCase { spec: ispec, key: KeySpec { alg: KeyAlg::Ed25519, idx: 1, rsa_hash: RsaHash::Sha256, remote: !cfg!(feature = "crypto") } }), ..case.clone() };
		let built = build_cert(&twin).map_err(|e| format!("an accepted string value cannot be serialised (issuer-signed): {e}"))?;
		let (cert, _) = decode_cert(built.cert.der())?;
		let issuer = issuer_info(&twin);
		model::check_cert(&cert, &twin.spec, &keys::fixture(&twin.key).spki, &issuer).map_err(|e| format!("issued under a CA whose name has the same texts as UTF8Strings: {e}"))?;
	}
	Ok(())
}

/// one-character values: every `stride`-th scalar of each type's alphabet plus all boundary ones
fn serialise_sweep(cfg: &RunCfg) -> Vec<SerialiseCase> {
	let stride: u32 = if cfg.tier == Tier::Thorough { 1 } else { 11 };
	let mut vals: Vec<DnValueSpec> = Vec::new();
	for kind in RESTRICTED {
		let mut u = 0u32;
		while u < 0x110000 {
			if let Some(ch) = char::from_u32(u) {
				let boundary = (1..=2).any(|d| {
					char::from_u32(u.wrapping_sub(d)).map_or(true, |x| kind.admits(x) != kind.admits(ch)) || char::from_u32(u + d).map_or(true, |x| kind.admits(x) != kind.admits(ch))
				});
				if kind.admits(ch) && (u % stride == 0 || boundary || u < 0x100) {
					vals.push(DnValueSpec::new(kind, ch.to_string()));
				}
			}
			u += 1;
			if !matches!(kind, StrKind::Universal | StrKind::Bmp) && u > 0x100 {
				break;
			}
			if kind == StrKind::Bmp && u > 0x10010 {
				break;
			}
		}
	}
	vals.chunks(400).enumerate().map(|(i, c)| SerialiseCase { values: c.to_vec(), std_offset: if i % 7 == 6 { 255 } else { (i % 7) as u8 }, san_texts: vec![] }).collect()
}

fn serialise_random() -> BoxedStrategy<SerialiseCase> {
	(proptest::collection::vec(gen::dn_value(), 1..12), prop_oneof![6 => 0u8..6, 1 => Just(255u8)], proptest::collection::vec(gen::ia5_text(12), 0..4))
		.prop_map(|(values, std_offset, san_texts)| SerialiseCase { values, std_offset, san_texts })
		.boxed()
}

pub fn def() -> PropertyDef {
	PropertyDef {
		id: "C13",
		rule: "Exhaustive: every Unicode scalar value as a one-character string for each of the five restricted types (5 x 1 112 064), through TryFrom<&str>, TryFrom<String> and FromStr, against alphabet predicates transcribed from the property; every single UTF-16 unit (alone, after a high surrogate, before a low surrogate, after an ordinary unit, odd lengths) and every UTF-32 unit 0..0x110400 plus high ranges for the byte-level constructors; random multi-character mixed strings and random unit sequences (short ones, and 1..70 units with up to two ill-formed units at arbitrary positions); accepted values serialised in names (batches of 400 attributes; under the six named attribute types as well as custom ones; incl. two-letter codes, digit strings, the empty string) and IA5 values in the three IA5-typed SAN forms (incl. texts that read as IP literals, lengths around 127/255 octets) and decoded back under the expected tag; the same texts given to CertificateParams::new must come back as dNSName values with exactly that text (IP literals as addresses). Non-trivial = within 2 code points of an alphabet boundary, surrogate-range inputs, mixed strings.",
		assumptions: vec!["the alphabet predicates in spec.rs are a faithful transcription of the property statement", "the harness string decoder"],
		subs: vec![
			sweep_sub("scalar-sweep", scalar_chunks, check_scalar_chunk),
			sweep_sub("unit-sweep", unit_chunks, check_bytes_case),
			prop_sub("bytes-random", 120_000, 1_000_000, random_bytes_case, check_bytes_case),
			prop_sub("mixed", 120_000, 1_000_000, mixed_case, check_mixed),
			sweep_sub("serialise-sweep", serialise_sweep, check_serialise),
			prop_sub("serialise-random", 24_000, 200_000, serialise_random, check_serialise),
		],
	}
}
