//! C15 — generation is a pure function of its inputs: deterministic and thread-safe.

use std::io::Write;
use std::process::{Command, Stdio};

use proptest::prelude::*;
use serde::{Deserialize, Serialize};

use crate::gen::CertGenOpts;
use crate::keys;
use crate::mk;
use crate::props::common::*;
use crate::runner::*;
use crate::spec::*;

#[derive(Clone, Debug, Serialize, Deserialize, PartialEq, Eq, Hash)]
pub enum Art {
	Cert(CertCase),
	Csr(CsrCase),
	Crl(CrlCase),
}

/// Certificates for RSA subject keys (several fixture keys of one size), serial left to rcgen.
fn rsa_art() -> BoxedStrategy<Art> {
	(cert_case(CertGenOpts::FULL, true), 0u8..3, any::<bool>())
		.prop_map(|(mut c, idx, auto)| {
			c.key = KeySpec { alg: KeyAlg::Rsa2048, idx, rsa_hash: RsaHash::Sha256, remote: !cfg!(feature = "crypto") };
			c.pk_source = PkSource::KeyPair;
			if auto && cfg!(feature = "crypto") {
				c.spec.serial = None;
			}
			Art::Cert(c)
		})
		.boxed()
}

fn art(cheap: bool) -> BoxedStrategy<Art> {
	prop_oneof![
		3 => (cert_case(CertGenOpts::FULL, cheap), prop::bool::weighted(0.2)).prop_map(|(mut c, unset_serial)| {
			// Without a crypto back end there is no default serial: the documented outcome is an error,
			// which has to be as repeatable as any output.
			if unset_serial && !cfg!(feature = "crypto") {
				c.spec.serial = None;
			}
			Art::Cert(c)
		}),
		1 => csr_case(cheap).prop_map(Art::Csr),
		1 => crl_case(false, cheap).prop_map(Art::Crl),
	]
	.boxed()
}

/// Keys and issuer certificate, built once and shared by every generation call of a case.
pub struct Env {
	subject_key: rcgen::KeyPair,
	issuer: Option<(rcgen::Certificate, rcgen::KeyPair)>,
	signer: KeySpec,
}

fn env_for(a: &Art) -> Result<Env, String> {
	match a {
		Art::Cert(c) => {
			let subject_key = keys::make_key(&c.key)?;
			let issuer = match &c.issuer {
				None => None,
				Some(i) => {
					let k = keys::make_key(&i.key)?;
					let cert = mk::cert_params(&i.spec)?.self_signed(&k).map_err(|e| e.to_string())?;
					Some((cert, k))
				},
			};
			Ok(Env { subject_key, issuer, signer: signer_key(c) })
		},
		Art::Csr(c) => Ok(Env { subject_key: keys::make_key(&c.key)?, issuer: None, signer: c.key }),
		Art::Crl(c) => {
			let k = keys::make_key(&c.issuer.key)?;
			let cert = mk::cert_params(&c.issuer.spec)?.self_signed(&k).map_err(|e| e.to_string())?;
			Ok(Env { subject_key: keys::make_key(&c.issuer.key)?, issuer: Some((cert, k)), signer: c.issuer.key })
		},
	}
}

pub struct Produced {
	pub tbs: Vec<u8>,
	pub full: Vec<u8>,
	/// the call returned an error (its text): an outcome like any other, which must repeat
	pub refused: Option<String>,
}

fn refused(e: rcgen::Error) -> Result<Produced, String> {
	Ok(Produced { tbs: vec![], full: vec![], refused: Some(e.to_string()) })
}

/// One generation call through the real API, with the "parameters unchanged" checks.
fn produce(a: &Art, env: &Env) -> Result<Produced, String> {
	match a {
		Art::Cert(c) => {
			// a third of the certificates get their parameters by editing an object that held other
			// content first (attributes removed and pushed, lists cleared and refilled): what comes out
			// may depend on the final field values only
			let params = if crate::runner::hash_json(&serde_json::to_value(&c.spec).unwrap()) % 3 == 0 {
				let mut other = c.spec.clone();
				other.dn.0.reverse();
				other.dn.0.push((DnTypeSpec::Custom(vec![1, 3, 6, 1, 4, 1, 55555, 77]), DnValueSpec::new(StrKind::Utf8, "scaffold")));
				other.sans.reverse();
				other.key_usages.reverse();
				let mut p = mk::cert_params(&other)?;
				mk::cert_params_onto(&mut p, &c.spec, true)?;
				p
			} else {
				let mut p = mk::cert_params(&c.spec)?;
				// another third: a small edit after construction (drop the first attribute, add a new one)
				if crate::runner::hash_json(&serde_json::to_value(&c.spec).unwrap()) % 3 == 1 {
					let first = p.distinguished_name.iter().next().map(|(t, _)| t.clone());
					if let Some(t) = first {
						p.distinguished_name.remove(t);
						p.distinguished_name.push(rcgen::DnType::CustomDnType(vec![1, 3, 6, 1, 4, 1, 55555, 78]), "edited");
						p.distinguished_name.push(rcgen::DnType::CustomDnType(vec![1, 3, 6, 1, 4, 1, 55555, 79]), "edited too");
					}
				}
				p
			};
			let input = params.clone();
			let cert = match &env.issuer {
				None => params.self_signed(&env.subject_key),
				Some((ic, ik)) => params.signed_by(&env.subject_key, ic, ik),
			};
			let cert = match cert {
				Ok(c) => c,
				Err(e) => return refused(e),
			};
			if cert.params() != &input {
				return Err("the returned certificate reports parameters different from the input".into());
			}
			let (d, _) = decode_cert(cert.der())?;
			Ok(Produced { tbs: d.tbs_raw, full: cert.der().to_vec(), refused: None })
		},
		Art::Csr(c) => {
			let params = mk::cert_params(&c.spec)?;
			let input = params.clone();
			let attrs: Vec<rcgen::Attribute> = c.attrs.iter().map(mk::attribute).collect();
			let csr = match params.serialize_request_with_attributes(&env.subject_key, attrs) {
				Ok(c) => c,
				Err(e) => return refused(e),
			};
			if params != input {
				return Err("serialize_request altered the parameters".into());
			}
			let (d, _) = decode_csr(csr.der())?;
			Ok(Produced { tbs: d.cri_raw, full: csr.der().to_vec(), refused: None })
		},
		Art::Crl(c) => {
			let params = mk::crl_params(&c.crl)?;
			let input_dbg = format!("{:?}", params);
			let (ic, ik) = env.issuer.as_ref().unwrap();
			let crl = match params.signed_by(ic, ik) {
				Ok(c) => c,
				Err(e) => return refused(e),
			};
			if format!("{:?}", crl.params()) != input_dbg {
				return Err("the returned CRL reports parameters different from the input".into());
			}
			let (d, _) = decode_crl(crl.der())?;
			Ok(Produced { tbs: d.tbs_raw, full: crl.der().to_vec(), refused: None })
		},
	}
}

/// Another artefact generated with the *key objects* of `env` (but its own parameters and, where
/// it has one, its own issuer certificate built around the shared issuer key): the kind of
/// unrelated call that may precede or interleave with the observed one.
fn produce_sharing_keys(a: &Art, env: &Env) -> Result<(), String> {
	match a {
		Art::Cert(c) => {
			let params = mk::cert_params(&c.spec)?;
			match (&c.issuer, &env.issuer) {
				(Some(i), Some((_, ik))) => {
					let ic = mk::cert_params(&i.spec)?.self_signed(ik).map_err(|e| e.to_string())?;
					let _ = params.signed_by(&env.subject_key, &ic, ik);
				},
				_ => {
					let _ = params.self_signed(&env.subject_key);
				},
			}
		},
		Art::Csr(c) => {
			let _ = mk::cert_params(&c.spec)?.serialize_request(&env.subject_key);
		},
		Art::Crl(c) => {
			let key = match &env.issuer {
				Some((_, ik)) => ik,
				None => &env.subject_key,
			};
			let ic = mk::cert_params(&c.issuer.spec)?.self_signed(key).map_err(|e| e.to_string())?;
			let _ = mk::crl_params(&c.crl)?.signed_by(&ic, key);
		},
	}
	Ok(())
}

fn deterministic_scheme(k: &KeySpec) -> bool {
	k.alg == KeyAlg::Ed25519 || k.is_rsa()
}

fn compare(base: &Produced, other: &Produced, signer: &KeySpec, what: &str) -> Result<(), String> {
	if base.refused != other.refused {
		return Err(format!("the outcome differs {what}: first {:?}, second {:?}", base.refused.as_deref().unwrap_or("generated"), other.refused.as_deref().unwrap_or("generated")));
	}
	if base.tbs != other.tbs {
		return Err(format!(
			"to-be-signed bytes differ {what}:\n  first  {}\n  second {}",
			crate::der::hex(&base.tbs),
			crate::der::hex(&other.tbs)
		));
	}
	if deterministic_scheme(signer) && base.full != other.full {
		return Err(format!("complete output differs {what} although the signature scheme ({}) is deterministic", signer.label()));
	}
	Ok(())
}

struct Snapshot {
	key_pub: Vec<u8>,
	key_priv: Option<Vec<u8>>,
	issuer_der: Option<Vec<u8>>,
	issuer_key_pub: Option<Vec<u8>>,
}

fn snapshot(env: &Env) -> Snapshot {
	Snapshot {
		key_pub: env.subject_key.public_key_der(),
		key_priv: if env.subject_key.as_remote().is_none() { Some(env.subject_key.serialize_der()) } else { None },
		issuer_der: env.issuer.as_ref().map(|(c, _)| c.der().to_vec()),
		issuer_key_pub: env.issuer.as_ref().map(|(_, k)| k.public_key_der()),
	}
}

fn unchanged(a: &Snapshot, b: &Snapshot) -> Result<(), String> {
	if a.key_pub != b.key_pub || a.key_priv != b.key_priv {
		return Err("generation altered the shared key pair".into());
	}
	if a.issuer_der != b.issuer_der || a.issuer_key_pub != b.issuer_key_pub {
		return Err("generation altered the shared issuer".into());
	}
	Ok(())
}

fn classes(a: &Art, info: &mut CaseInfo) {
	let (n_attrs, kind) = match a {
		Art::Cert(c) => (c.spec.dn.effective().len(), "cert"),
		Art::Csr(c) => (c.spec.dn.effective().len(), "csr"),
		Art::Crl(c) => (c.issuer.spec.dn.effective().len(), "crl"),
	};
	info.class(format!("kind:{kind}"));
	info.class(format!("name-attrs:{}", n_attrs.min(4)));
	if n_attrs >= 3 {
		info.nontrivial = true;
	}
}

pub fn check_repeat(a: &Art, info: &mut CaseInfo) -> Result<(), String> {
	classes(a, info);
	let env = env_for(a)?;
	let before = snapshot(&env);
	let first = produce(a, &env)?;
	if first.refused.is_some() {
		info.class("outcome:refused");
	}
	let second = produce(a, &env)?;
	compare(&first, &second, &env.signer, "between two identical calls")?;
	unchanged(&before, &snapshot(&env))?;
	// fresh key objects and issuer
	let env2 = env_for(a)?;
	let third = produce(a, &env2)?;
	compare(&first, &third, &env.signer, "after rebuilding keys and issuer from the same inputs")?;
	// one key in both roles: the issuer's key pair is also the subject key, once as the very same
	// object and once as an equal key loaded separately. Parameters, subject public key and issuer
	// are the same in both calls.
	if let (Art::Cert(c), Some((ic, ik)), Some((_, ik2))) = (a, &env.issuer, &env2.issuer) {
		info.class("one-key-both-roles");
		let with = |subject: &rcgen::KeyPair| -> Result<Produced, String> {
			match mk::cert_params(&c.spec)?.signed_by(subject, ic, ik) {
				Ok(cert) => Ok(Produced { tbs: decode_cert(cert.der())?.0.tbs_raw, full: cert.der().to_vec(), refused: None }),
				Err(e) => refused(e),
			}
		};
		let same_object = with(ik)?;
		let equal_copy = with(ik2)?;
		let signer = c.issuer.as_ref().map(|i| i.key).unwrap_or(env.signer);
		compare(&same_object, &equal_copy, &signer, "between the issuer's key object and an equal copy of it used as the subject key")?;
	}
	Ok(())
}

#[derive(Clone, Debug, Serialize, Deserialize, PartialEq, Eq, Hash)]
pub struct HistoryCase {
	pub target: Art,
	pub prefix: Vec<Art>,
}

pub fn check_history(h: &HistoryCase, info: &mut CaseInfo) -> Result<(), String> {
	classes(&h.target, info);
	info.nontrivial = info.nontrivial || !h.prefix.is_empty();
	info.class(format!("prefix-len:{}", h.prefix.len().min(4)));
	// reference: the call on fresh key objects with no history at all
	let base = produce(&h.target, &env_for(&h.target)?)?;
	// the observed call on key objects that have a history of other calls behind them
	let env = env_for(&h.target)?;
	let before = snapshot(&env);
	for (i, p) in h.prefix.iter().enumerate() {
		match i % 3 {
			0 => {
				let _ = produce(p, &env_for(p)?);
			},
			_ => {
				// other parameters (other key-identifier methods, other issuer certificates) on the
				// same key objects
				let _ = no_panic(|| produce_sharing_keys(p, &env));
			},
		}
	}
	let after = produce(&h.target, &env)?;
	compare(&base, &after, &env.signer, "after a history of other API calls on the same key objects")?;
	unchanged(&before, &snapshot(&env))
}

#[derive(Clone, Debug, Serialize, Deserialize, PartialEq, Eq, Hash)]
pub struct ThreadCase {
	pub target: Art,
	pub threads: u8,
	pub iters: u8,
	/// other artefacts generated concurrently on the same key objects by every third thread
	#[serde(default)]
	pub others: Vec<Art>,
}

pub fn check_threads(t: &ThreadCase, info: &mut CaseInfo) -> Result<(), String> {
	classes(&t.target, info);
	let threads = (t.threads % 15 + 2) as usize;
	let iters = (t.iters % 6 + 1) as usize;
	info.nontrivial = info.nontrivial || threads >= 4;
	info.class(format!("threads:{}", if threads >= 8 { ">=8" } else if threads >= 4 { "4-7" } else { "2-3" }));
	let base = produce(&t.target, &env_for(&t.target)?)?;
	let env = env_for(&t.target)?;
	let before = snapshot(&env);
	let results: Vec<Result<Vec<Produced>, String>> = std::thread::scope(|s| {
		let handles: Vec<_> = (0..threads)
			.map(|ti| {
				let env = &env;
				s.spawn(move || {
					let mut v = Vec::new();
					for it in 0..iters {
						if ti % 3 == 2 && !t.others.is_empty() {
							let _ = no_panic(|| produce_sharing_keys(&t.others[(ti + it) % t.others.len()], env));
						}
						v.push(produce(&t.target, env)?);
					}
					Ok(v)
				})
			})
			.collect();
		handles.into_iter().map(|h| h.join().unwrap_or_else(|_| Err("a generation thread panicked".into()))).collect()
	});
	for (i, r) in results.into_iter().enumerate() {
		for p in r? {
			compare(&base, &p, &env.signer, &format!("in concurrent thread {i} (of {threads} sharing one key pair and issuer)"))?;
		}
	}
	unchanged(&before, &snapshot(&env))
}

/// `rv c15-child`: reads a JSON array of `Art` on stdin, prints a JSON array of hex TBS.
pub fn child_main() {
	let mut s = String::new();
	std::io::Read::read_to_string(&mut std::io::stdin(), &mut s).expect("stdin");
	// input: [arts, order] - the artefacts are produced in the given order, the answers are returned
	// in the artefacts' own order
	let (arts, order): (Vec<Art>, Vec<usize>) = serde_json::from_str(&s).expect("child input");
	let mut out: Vec<String> = vec![String::new(); arts.len()];
	for i in order {
		let a = &arts[i];
		out[i] = match env_for(a).and_then(|e| produce(a, &e)) {
			Ok(p) => p.refused.map(|r| format!("REFUSED {r}")).unwrap_or_else(|| crate::der::hex(&p.tbs)),
			Err(e) => format!("ERR {e}"),
		};
	}
	println!("{}", serde_json::to_string(&out).unwrap());
}

#[derive(Clone, Debug, Serialize, Deserialize, PartialEq, Eq, Hash)]
pub struct ProcessBatch {
	pub arts: Vec<Art>,
}

pub fn check_processes(b: &ProcessBatch, info: &mut CaseInfo) -> Result<(), String> {
	info.nontrivial = true;
	info.weight = b.arts.len() as u64 * 3;
	info.nontrivial_weight = (b.arts.len() as u64).saturating_sub(1);
	info.class("fresh-processes:3");
	let exe = std::env::current_exe().map_err(|e| e.to_string())?;
	let n = b.arts.len();
	// the children go through the batch in the same order, backwards, and from the middle outwards
	let orders: [Vec<usize>; 3] = [(0..n).collect(), (0..n).rev().collect(), (0..n).map(|i| (i + n / 2) % n).collect()];
	let local: Vec<String> = b
		.arts
		.iter()
		.map(|a| match env_for(a).and_then(|e| produce(a, &e)) {
			Ok(p) => p.refused.map(|r| format!("REFUSED {r}")).unwrap_or_else(|| crate::der::hex(&p.tbs)),
			Err(e) => format!("ERR {e}"),
		})
		.collect();
	if local.iter().any(|l| l.starts_with("REFUSED")) {
		info.class("outcome:refused");
	}
	for run in 0..3 {
		let mut child = Command::new(&exe)
			.arg("c15-child")
			.stdin(Stdio::piped())
			.stdout(Stdio::piped())
			.stderr(Stdio::null())
			.spawn()
			.map_err(|e| format!("cannot spawn child: {e}"))?;
		let input = serde_json::to_string(&(&b.arts, &orders[run])).unwrap();
		child.stdin.take().unwrap().write_all(input.as_bytes()).map_err(|e| e.to_string())?;
		let out = child.wait_with_output().map_err(|e| e.to_string())?;
		let remote: Vec<String> = serde_json::from_slice(&out.stdout).map_err(|e| format!("child output unreadable: {e}"))?;
		if remote.len() != local.len() {
			return Err("child returned a different number of results".into());
		}
		for (i, (l, r)) in local.iter().zip(remote.iter()).enumerate() {
			if l != r {
				return Err(format!(
					"fresh process #{run} produced different to-be-signed bytes for artefact {i} of the batch:\n  here  {l}\n  there {r}\n  artefact: {}",
					serde_json::to_string(&b.arts[i]).unwrap()
				));
			}
		}
	}
	Ok(())
}

/// A key generated by rcgen (kept in memory, never reloaded) signs the same parameters twice.
#[cfg(feature = "crypto")]
pub fn check_generated_key(c: &crate::props::c01::GenKeyCase, info: &mut CaseInfo) -> Result<(), String> {
	let algos = crate::props::c11::algos();
	let (name, alg) = algos[c.alg_idx as usize % algos.len()];
	let key = match crate::props::c01::generate_key(alg, c.rsa_size) {
		Ok(k) => k,
		Err(rcgen::Error::KeyGenerationUnavailable) => {
			info.class("generation-unavailable");
			return Ok(());
		},
		Err(e) => return Err(format!("generating a {name} key failed: {e}")),
	};
	info.nontrivial = true;
	info.class(format!("generated:{name}"));
	let deterministic = name == "ED25519" || name.starts_with("RSA_");
	let mut spec = CertSpec::minimal();
	spec.dn = c.dn.clone();
	let make_cert = || -> Result<Produced, String> {
		let cert = mk::cert_params(&spec)?.self_signed(&key).map_err(|e| format!("self_signed: {e}"))?;
		let (d, _) = decode_cert(cert.der())?;
		Ok(Produced { tbs: d.tbs_raw, full: cert.der().to_vec(), refused: None })
	};
	let make_csr = || -> Result<Produced, String> {
		let mut cs = spec.clone();
		cs.serial = None;
		let csr = mk::cert_params(&cs)?.serialize_request(&key).map_err(|e| format!("serialize_request: {e}"))?;
		let (d, _) = decode_csr(csr.der())?;
		Ok(Produced { tbs: d.cri_raw, full: csr.der().to_vec(), refused: None })
	};
	for (what, a, b) in [("certificate", make_cert()?, make_cert()?), ("CSR", make_csr()?, make_csr()?)] {
		if a.tbs != b.tbs {
			return Err(format!("{what}: to-be-signed bytes differ between two identical calls with a generated {name} key"));
		}
		if deterministic && a.full != b.full {
			return Err(format!("{what}: complete output differs between two identical calls although the signature scheme of the generated {name} key is deterministic"));
		}
	}
	Ok(())
}

#[cfg(not(feature = "crypto"))]
pub fn check_generated_key(_: &crate::props::c01::GenKeyCase, _: &mut CaseInfo) -> Result<(), String> {
	Ok(())
}

pub fn def() -> PropertyDef {
	PropertyDef {
		id: "C15",
		rule: "Generated certificates / CSRs / CRLs (names of up to 6 attributes; all key algorithms): (a) the same call twice with shared keys and again with rebuilt keys and issuer, and - for issued certificates - with the issuer's key pair as subject key once as the very same object and once as an equal copy; (b) after a generated history of 0..6 other generation calls, some sharing the same keys and issuer; (c) 2..16 threads x 1..6 iterations sharing one &KeyPair and one issuer &Certificate; (d) batches (with several RSA subject keys of one size among them) evaluated in three fresh child processes (different hash-map seeds; the same order, backwards, and from the middle outwards); (e) keys generated by rcgen (every algorithm; RSA 2048/3072 under aws-lc-rs) sign the same parameters twice. Oracle: identical to-be-signed byte range (cut out by the harness reader), identical complete output for Ed25519 and RSA PKCS#1 v1.5, the same error when the call is refused (e.g. no serial number in a build without a crypto back end), params() equal to the input, shared key and issuer unchanged. Non-trivial = name with >= 3 attributes, or >= 4 threads, or non-empty prefix, or a cross-process batch.",
		assumptions: vec!["thread interleavings are sampled by the OS scheduler, not enumerated", "the harness reader finds the signed byte range"],
		subs: vec![
			prop_sub("repeat", 15_000, 300_000, || art(false), check_repeat),
			prop_sub("history", 7_500, 150_000, || {
				// (a share of the histories use the full key set: RSA keys of one size look alike at the front)
				prop_oneof![
					3 => (art(true), proptest::collection::vec(art(true), 0..6)).prop_map(|(target, prefix)| HistoryCase { target, prefix }),
					1 => (rsa_art(), proptest::collection::vec(rsa_art(), 1..4)).prop_map(|(target, prefix)| HistoryCase { target, prefix }),
				]
				.boxed()
			}, check_history),
			prop_sub("threads", 6_000, 60_000, || {
				(art(true), any::<u8>(), any::<u8>(), proptest::collection::vec(art(true), 0..3)).prop_map(|(target, threads, iters, others)| ThreadCase { target, threads, iters, others }).boxed()
			}, check_threads),
			prop_sub("generated-keys", 480, 4_000, || {
				(any::<u8>(), prop_oneof![5 => Just(0u8), 4 => Just(1u8), 1 => Just(2u8)], crate::gen::dn(3, true, false))
					.prop_map(|(alg_idx, rsa_size, dn)| crate::props::c01::GenKeyCase { alg_idx, rsa_size, dn })
					.boxed()
			}, check_generated_key),
			prop_sub("processes", 72, 600, || {
				(proptest::collection::vec(art(true), 20..40), proptest::collection::vec(rsa_art(), 2..5))
					.prop_map(|(mut arts, rsa)| {
						arts.extend(rsa);
						ProcessBatch { arts }
					})
					.boxed()
			}, check_processes),
		],
	}
}
