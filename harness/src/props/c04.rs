//! C04 — everything emitted as DER is canonical DER.

use proptest::prelude::*;
use serde::{Deserialize, Serialize};

use crate::der::{self, Lints};
use crate::gen::{self, CertGenOpts};
use crate::keys;
use crate::mk;
use crate::props::common::*;
use crate::runner::*;
use crate::spec::*;
use crate::x509::{self, ExtValue};

fn fail_on_lints(mut lints: Vec<String>, what: &str) -> Result<(), String> {
	if lints.is_empty() {
		return Ok(());
	}
	lints.truncate(4);
	Err(format!("{what} is not canonical DER: {}", lints.join("; ")))
}

fn custom_embedded(exts: &Option<Vec<x509::Ext>>, custom: &[CustomExtSpec]) -> Result<(), String> {
	for c in custom {
		let want = if c.acme { crate::model::acme_content(&c.content.0) } else { c.content.0.clone() };
		if !x509::find_ext(exts, &c.oid).iter().any(|e| e.value_raw == want) {
			return Err(format!("custom extension {:?}: supplied content {} is not embedded byte-for-byte", c.oid, der::hex(&want)));
		}
	}
	Ok(())
}

pub fn check_cert_case(case: &CertCase, info: &mut CaseInfo) -> Result<(), String> {
	info.nontrivial = !case.spec.key_usages.is_empty()
		|| case.spec.is_ca != IsCaSpec::NoCa
		|| case.spec.serial.is_some()
		|| case.spec.not_before.offset != 0
		|| !case.spec.custom_exts.is_empty();
	if !case.spec.key_usages.is_empty() {
		info.class("has:key-usage");
	}
	info.class(format!("isca:{}", match case.spec.is_ca {
		IsCaSpec::NoCa => "no",
		IsCaSpec::ExplicitNoCa => "explicit-no",
		_ => "ca",
	}));
	let built = build_cert(case)?;
	let l = Lints::new();
	let c = x509::parse_cert(built.cert.der(), &l).map_err(|e| format!("independent decoder rejects the certificate: {e}"))?;
	x509::lint_time_form(&c.not_before, &l, "notBefore");
	x509::lint_time_form(&c.not_after, &l, "notAfter");
	fail_on_lints(l.take(), "certificate")?;
	custom_embedded(&c.extensions, &case.spec.custom_exts)
}

pub fn check_csr_case(case: &CsrCase, info: &mut CaseInfo) -> Result<(), String> {
	info.nontrivial = case.attrs.len() >= 2 || !case.spec.key_usages.is_empty() || !case.spec.custom_exts.is_empty();
	info.class(format!("attrs:{}", case.attrs.len().min(3)));
	let (csr, _) = build_csr(case)?;
	let l = Lints::new();
	let c = x509::parse_csr(csr.der(), &l).map_err(|e| format!("independent decoder rejects the CSR: {e}"))?;
	fail_on_lints(l.take(), "CSR")?;
	for (oid, values) in csr_attr_pairs(case) {
		if !c.attributes.iter().any(|a| a.oid == oid && a.values_raw == values) {
			return Err(format!("attribute {:?}: supplied values {} not embedded byte-for-byte", oid, der::hex(&values)));
		}
	}
	if let Some(req) = c.ext_requests.first() {
		custom_embedded(&Some(req.clone()), &case.spec.custom_exts)?;
	}
	Ok(())
}

pub fn check_crl_case(case: &CrlCase, info: &mut CaseInfo) -> Result<(), String> {
	info.nontrivial = !case.crl.revoked.is_empty() || case.crl.idp.is_some();
	info.class(format!("entries:{}", case.crl.revoked.len().min(3)));
	let built = build_crl(case)?.map_err(|e| format!("CRL signed_by refused a valid request: {e}"))?;
	let l = Lints::new();
	let c = x509::parse_crl(built.crl.der(), &l).map_err(|e| format!("independent decoder rejects the CRL: {e}"))?;
	x509::lint_time_form(&c.this_update, &l, "thisUpdate");
	if let Some(t) = &c.next_update {
		x509::lint_time_form(t, &l, "nextUpdate");
	}
	for e in c.revoked.iter().flatten() {
		x509::lint_time_form(&e.revocation_date, &l, "revocationDate");
		for x in e.extensions.iter().flatten() {
			if let ExtValue::InvalidityDate(t) = &x.value {
				if t.form != der::TimeForm::Generalized {
					l.add(format!("invalidityDate '{}' is not a GeneralizedTime", t.text));
				}
			}
		}
	}
	fail_on_lints(l.take(), "CRL")
}

pub fn check_spki(k: &KeySpec, info: &mut CaseInfo) -> Result<(), String> {
	info.nontrivial = true;
	info.class(format!("spki:{}", k.label()));
	let key = keys::make_key(k)?;
	let spki = key.public_key_der();
	let l = Lints::new();
	x509::parse_spki_der(&spki, &l).map_err(|e| format!("independent decoder rejects the SubjectPublicKeyInfo: {e}"))?;
	fail_on_lints(l.take(), "SubjectPublicKeyInfo")
}

/// Automatic serial over every two-octet digest prefix (cases shared with C05): the INTEGER must be minimal.
#[cfg(feature = "crypto")]
pub fn check_serial_sweep(c: &crate::props::c05::SerialKeyCase, info: &mut CaseInfo) -> Result<(), String> {
	let der = crate::props::c05::serial_sweep_cert(c, info)?;
	let l = Lints::new();
	x509::parse_cert(&der, &l).map_err(|e| format!("independent decoder rejects the certificate: {e}"))?;
	fail_on_lints(l.take(), "certificate with automatic serial")
}

#[cfg(not(feature = "crypto"))]
pub fn check_serial_sweep(_: &crate::props::c05::SerialKeyCase, _: &mut CaseInfo) -> Result<(), String> {
	Ok(())
}

/// A remote key whose public key has `len` octets (rcgen embeds a remote signer's public key as it
/// is given): SubjectPublicKeyInfo, certificate and CSR around it must still be canonical DER.
#[derive(Clone, Copy, Debug, Serialize, Deserialize, PartialEq, Eq, Hash)]
pub struct KeyLenCase {
	pub len: u32,
	pub alg: KeyAlg,
}

pub fn key_len_cases(_: &RunCfg) -> Vec<KeyLenCase> {
	let mut v = Vec::new();
	for alg in keys::available_algs() {
		if matches!(alg, KeyAlg::Rsa3072 | KeyAlg::Rsa4096 | KeyAlg::Rsa6144) {
			continue; // same algorithm identifier as RSA-2048
		}
		for len in (0u32..=300).chain([65_400, 65_519, 65_520, 65_530, 65_535, 65_536, 70_000]) {
			v.push(KeyLenCase { len, alg });
		}
	}
	v
}

pub fn check_key_len(c: &KeyLenCase, info: &mut CaseInfo) -> Result<(), String> {
	info.nontrivial = true;
	info.class(format!("public-key-octets:{}", match c.len { 0..=125 => "<=125", 126..=129 => "126-129", 130..=253 => "130-253", 254..=258 => "254-258", 259..=300 => "259-300", _ => ">=64k" }));
	let alg = keys::rcgen_alg(&KeySpec { alg: c.alg, idx: 0, rsa_hash: RsaHash::Sha256, remote: true });
	let public: Vec<u8> = (0..c.len).map(|i| (i * 7 + 1) as u8).collect();
	let key = keys::opaque_key(public.clone(), alg)?;
	let spki = key.public_key_der();
	let l = Lints::new();
	let parsed = x509::parse_spki_der(&spki, &l).map_err(|e| format!("independent decoder rejects the SubjectPublicKeyInfo of a {}-octet key: {e}", c.len))?;
	fail_on_lints(l.take(), "SubjectPublicKeyInfo")?;
	if parsed.key_bits != public {
		return Err("SubjectPublicKeyInfo does not carry the given public key octets".into());
	}
	let mut spec = CertSpec::minimal();
	spec.serial = Some(Hex(vec![3]));
	spec.kid = KidSpec::Pre(Hex(vec![7]));
	let cert = mk::cert_params(&spec)?.self_signed(&key).map_err(|e| format!("self_signed: {e}"))?;
	let l = Lints::new();
	let pc = x509::parse_cert(cert.der(), &l).map_err(|e| format!("independent decoder rejects the certificate: {e}"))?;
	fail_on_lints(l.take(), "certificate")?;
	if pc.spki.raw != spki {
		return Err("the certificate embeds a SubjectPublicKeyInfo different from public_key_der()".into());
	}
	let mut cs = CertSpec::minimal();
	cs.serial = None;
	let csr = mk::cert_params(&cs)?.serialize_request(&key).map_err(|e| format!("serialize_request: {e}"))?;
	let l = Lints::new();
	let pr = x509::parse_csr(csr.der(), &l).map_err(|e| format!("independent decoder rejects the CSR: {e}"))?;
	fail_on_lints(l.take(), "CSR")?;
	if pr.spki.raw != spki {
		return Err("the CSR embeds a SubjectPublicKeyInfo different from public_key_der()".into());
	}
	Ok(())
}

/// Every signature algorithm `SignatureAlgorithm::from_oid` hands out for a list of registered
/// signature OIDs (the public statics and whatever else the lookup knows), with every fixture key it
/// loads under: the artefacts must be canonical DER, AlgorithmIdentifier parameters included.
#[derive(Clone, Debug, Serialize, Deserialize, PartialEq, Eq, Hash)]
pub struct AlgOidCase {
	pub oid: Vec<u64>,
	pub key: KeyAlg,
}

const SIGNATURE_OIDS: [&[u64]; 22] = [
	&[1, 2, 840, 113549, 1, 1, 1],
	&[1, 2, 840, 113549, 1, 1, 4],
	&[1, 2, 840, 113549, 1, 1, 5],
	&[1, 2, 840, 113549, 1, 1, 10],
	&[1, 2, 840, 113549, 1, 1, 11],
	&[1, 2, 840, 113549, 1, 1, 12],
	&[1, 2, 840, 113549, 1, 1, 13],
	&[1, 2, 840, 113549, 1, 1, 14],
	&[1, 2, 840, 10045, 2, 1],
	&[1, 2, 840, 10045, 4, 1],
	&[1, 2, 840, 10045, 4, 3, 1],
	&[1, 2, 840, 10045, 4, 3, 2],
	&[1, 2, 840, 10045, 4, 3, 3],
	&[1, 2, 840, 10045, 4, 3, 4],
	&[1, 3, 101, 112],
	&[1, 3, 101, 113],
	&[2, 16, 840, 1, 101, 3, 4, 3, 2],
	&[2, 16, 840, 1, 101, 3, 4, 3, 10],
	&[2, 16, 840, 1, 101, 3, 4, 3, 12],
	&[2, 16, 840, 1, 101, 3, 4, 3, 14],
	&[2, 16, 840, 1, 101, 3, 4, 3, 17],
	&[1, 2, 840, 10040, 4, 3],
];

fn alg_oid_cases(_: &RunCfg) -> Vec<AlgOidCase> {
	let mut v = Vec::new();
	for oid in SIGNATURE_OIDS {
		for key in keys::available_algs() {
			if matches!(key, KeyAlg::Rsa3072 | KeyAlg::Rsa4096 | KeyAlg::Rsa6144) {
				continue;
			}
			v.push(AlgOidCase { oid: oid.to_vec(), key });
		}
	}
	v
}

/// RFC 4055 RSASSA-PSS-params: every field has a DEFAULT, which DER leaves out.
fn lint_pss_params(params: &[u8], l: &Lints) {
	let Ok(t) = der::read_single(params, l, "RSASSA-PSS-params") else { return };
	let Ok(fields) = der::children(t.content, l) else { return };
	for f in fields {
		match f.raw.first() {
			Some(0xa2) if f.content == [0x02, 0x01, 0x14] => l.add("RSASSA-PSS-params: saltLength 20 (the DEFAULT) is encoded".to_string()),
			Some(0xa3) if f.content == [0x02, 0x01, 0x01] => l.add("RSASSA-PSS-params: trailerField 1 (the DEFAULT) is encoded".to_string()),
			Some(0xa0) if f.content.windows(5).any(|w| w == [0x2b, 0x0e, 0x03, 0x02, 0x1a]) => l.add("RSASSA-PSS-params: hashAlgorithm sha1 (the DEFAULT) is encoded".to_string()),
			_ => {},
		}
	}
}

#[cfg(feature = "crypto")]
pub fn check_alg_oid(c: &AlgOidCase, info: &mut CaseInfo) -> Result<(), String> {
	let alg = match no_panic(|| rcgen::SignatureAlgorithm::from_oid(&c.oid)).map_err(|p| format!("{p} in SignatureAlgorithm::from_oid"))? {
		Ok(a) => a,
		Err(_) => {
			info.class("oid-not-registered");
			return Ok(());
		},
	};
	let fx = keys::fixture(&KeySpec { alg: c.key, idx: 0, rsa_hash: RsaHash::Sha256, remote: false });
	let loaded = no_panic(|| rcgen::KeyPair::from_pkcs8_der_and_sign_algo(&pki_types::PrivatePkcs8KeyDer::from(fx.pk8.as_slice()), alg));
	let key = match loaded {
		Ok(Ok(k)) => k,
		// a key that does not fit, or an algorithm the loader does not serve (a documented panic for
		// algorithms outside the public statics is C10's matter)
		_ => {
			info.class("key-does-not-load-under-it");
			return Ok(());
		},
	};
	info.nontrivial = true;
	info.class(format!("algorithm:{:?}", alg));
	let mut spec = CertSpec::minimal();
	spec.is_ca = IsCaSpec::CaUnconstrained;
	let cert = mk::cert_params(&spec)?.self_signed(&key).map_err(|e| format!("self_signed: {e}"))?;
	let l = Lints::new();
	let d = x509::parse_cert(cert.der(), &l).map_err(|e| format!("independent decoder rejects the certificate: {e}"))?;
	for a in [&d.inner_alg, &d.outer_alg, &d.spki.alg] {
		if a.oid == [1, 2, 840, 113549, 1, 1, 10] {
			if let Some(p) = &a.params_raw {
				lint_pss_params(p, &l);
			}
		}
	}
	fail_on_lints(l.take(), &format!("certificate under the algorithm registered for {:?}", c.oid))?;
	let mut cs = CertSpec::minimal();
	cs.serial = None;
	let csr = mk::cert_params(&cs)?.serialize_request(&key).map_err(|e| format!("serialize_request: {e}"))?;
	let l = Lints::new();
	let r = x509::parse_csr(csr.der(), &l).map_err(|e| format!("independent decoder rejects the CSR: {e}"))?;
	for a in [&r.outer_alg, &r.spki.alg] {
		if a.oid == [1, 2, 840, 113549, 1, 1, 10] {
			if let Some(p) = &a.params_raw {
				lint_pss_params(p, &l);
			}
		}
	}
	fail_on_lints(l.take(), "CSR")
}

#[cfg(not(feature = "crypto"))]
pub fn check_alg_oid(_: &AlgOidCase, _: &mut CaseInfo) -> Result<(), String> {
	Ok(())
}

/// A batch of INTEGER byte strings, encoded as the serial numbers of one CRL and as its CRL
/// number (cheap: one signature per batch).
#[derive(Clone, Debug, Serialize, Deserialize, PartialEq, Eq, Hash)]
pub struct IntBatch {
	pub values: Vec<Hex>,
}

pub fn check_int_batch(b: &IntBatch, info: &mut CaseInfo) -> Result<(), String> {
	info.nontrivial = true;
	let issuer = IssuerCase {
		spec: CertSpec::minimal(),
		key: KeySpec { alg: KeyAlg::Ed25519, idx: 1, rsa_hash: RsaHash::Sha256, remote: !cfg!(feature = "crypto") },
	};
	let t = TimeSpec { unix: 1_600_000_000, nanos: 0, offset: 0 };
	let crl = CrlSpec {
		this_update: t,
		next_update: TimeSpec { unix: 1_700_000_000, nanos: 0, offset: 0 },
		crl_number: b.values[0].clone(),
		idp: None,
		revoked: b.values.iter().map(|v| RevokedSpec { serial: v.clone(), revocation_time: t, reason: None, invalidity_date: None }).collect(),
		kid: KidSpec::Pre(Hex(vec![7; 4])),
	};
	let case = CrlCase { crl, issuer };
	let mut dummy = CaseInfo::default();
	check_crl_case(&case, &mut dummy)?;
	// the same values as certificate serial numbers
	for v in b.values.iter().take(4) {
		let mut c = CertCase { spec: CertSpec::minimal(), key: case.issuer.key, pk_source: PkSource::KeyPair, issuer: None };
		c.spec.serial = Some(v.clone());
		c.spec.kid = KidSpec::Pre(Hex(vec![7; 4]));
		check_cert_case(&c, &mut dummy)?;
	}
	Ok(())
}

pub fn int_batches(cfg: &RunCfg) -> Vec<IntBatch> {
	let mut vals: Vec<Vec<u8>> = vec![vec![]];
	for a in 0..=255u8 {
		vals.push(vec![a]);
	}
	let firsts: Vec<u8> = if cfg.tier == Tier::Thorough { (0..=255).collect() } else { vec![0x00, 0x01, 0x7f, 0x80, 0xff] };
	for &a in &firsts {
		for b in 0..=255u8 {
			vals.push(vec![a, b]);
		}
	}
	for a in [0x00u8, 0x01, 0x7f, 0x80, 0xff] {
		for b in [0x00u8, 0x01, 0x7f, 0x80, 0xff] {
			for c in [0x00u8, 0x01, 0x7f, 0x80, 0xff] {
				vals.push(vec![a, b, c]);
				vals.push(vec![0, a, b, c]);
			}
		}
	}
	// 20- and 21-octet values with every leading pattern
	for a in [0x00u8, 0x01, 0x7f, 0x80, 0xff] {
		for n in [19usize, 20, 21] {
			let mut v = vec![a];
			v.extend(std::iter::repeat(0xa5).take(n));
			vals.push(v);
		}
	}
	vals.chunks(256).map(|c| IntBatch { values: c.iter().cloned().map(Hex).collect() }).collect()
}

/// Every ordering of up to four attributes (CSR attributes are a SET OF: the encoder must sort).
pub fn attr_order_cases(_cfg: &RunCfg) -> Vec<CsrCase> {
	let pool: Vec<AttrSpec> = (0u8..4)
		.map(|i| AttrSpec { oid_idx: [0u8, 4, 5, 7][i as usize], values: Hex(der::enc_tlv(0x31, &der::enc_tlv(0x0c, &[b'a' + i]))) })
		.collect();
	let mut out = Vec::new();
	let mut perm = |idxs: &[usize], with_req: bool| {
		let mut spec = CertSpec::minimal();
		if with_req {
			spec.sans = vec![SanSpec::Dns("x.example".into())];
		}
		out.push(CsrCase {
			spec,
			key: KeySpec { alg: KeyAlg::Ed25519, idx: 2, rsa_hash: RsaHash::Sha256, remote: !cfg!(feature = "crypto") },
			attrs: idxs.iter().map(|&i| pool[i].clone()).collect(),
		});
	};
	fn permutations(n: usize, k: usize) -> Vec<Vec<usize>> {
		if k == 0 {
			return vec![vec![]];
		}
		let mut out = Vec::new();
		for p in permutations(n, k - 1) {
			for i in 0..n {
				if !p.contains(&i) {
					let mut q = p.clone();
					q.push(i);
					out.push(q);
				}
			}
		}
		out
	}
	for k in 0..=4 {
		for p in permutations(4, k) {
			perm(&p, false);
			perm(&p, true);
		}
	}
	// duplicates of one attribute (identical encodings must both survive)
	perm(&[1, 1], true);
	perm(&[2, 0, 2], false);
	out
}

pub fn def() -> PropertyDef {
	PropertyDef {
		id: "C04",
		rule: "Certificates, CSRs, CRLs and SubjectPublicKeyInfos generated over the C02/C07/C08 parameter spaces are walked by the harness's strict schema-aware DER validator from the outermost element into every extension value (minimal lengths/INTEGERs/OIDs, BOOLEAN 0xFF, DEFAULTs absent, BIT STRING padding and named-bit lists, SET OF order, string alphabets, RFC 5280 time forms, no trailing bytes); caller-supplied DER is compared byte for byte. Sweeps: 511 key-usage subsets, every 0/1/2-byte serial and CRL number (2-byte: 5 leading patterns in quick, all in thorough) plus boundary 3/4/20/21/22-byte values, every ordering of <= 4 CSR attributes, the automatic serial for every value of the two leading octets of the key digest it is cut from (65 536 searched opaque keys plus rare three-octet patterns), and opaque remote public keys of every length 0..300 octets and around 65 535 per algorithm identifier (SPKI, certificate, CSR); every algorithm SignatureAlgorithm::from_oid hands out for 22 registered signature OIDs, with every fixture key that loads under it (AlgorithmIdentifier parameters with encoded DEFAULTs are flagged). Non-trivial = artefact contains a value-dependent form (key usage, basic constraints, explicit serial, offset time, custom content, >= 2 attributes, CRL entries).",
		assumptions: vec!["the harness DER validator implements X.690 §10-11 and the RFC 5280 ASN.1 module correctly (unit-tested on positive and negative vectors)"],
		subs: vec![
			prop_sub("cert", 64_000, 1_000_000, || cert_case(CertGenOpts::FULL, true), check_cert_case),
			prop_sub("csr", 24_000, 300_000, || csr_case(true), check_csr_case),
			prop_sub("crl", 24_000, 300_000, || crl_case(false, true), check_crl_case),
			sweep_sub("ku-sweep", |_| crate::props::c02::ku_sweep_cases(), check_cert_case),
			sweep_sub("isca-sweep", |_| {
				let mut v = crate::props::c02::pathlen_sweep_cases();
				for is_ca in [IsCaSpec::ExplicitNoCa, IsCaSpec::CaUnconstrained, IsCaSpec::NoCa] {
					let mut c = v[0].clone();
					c.spec.is_ca = is_ca;
					v.push(c);
				}
				v
			}, check_cert_case),
			sweep_sub("int-sweep", int_batches, check_int_batch),
			sweep_sub("attr-order-sweep", attr_order_cases, check_csr_case),
			sweep_sub("auto-serial-digest-sweep", crate::props::c05::serial_sweep_cases, check_serial_sweep),
			sweep_sub("public-key-length-sweep", key_len_cases, check_key_len),
			sweep_sub("algorithm-oid-sweep", alg_oid_cases, check_alg_oid),
			sweep_sub("spki-sweep", |_| {
				let mut v = Vec::new();
				for alg in keys::available_algs() {
					for idx in 0..keys::fixtures().pools[&alg].len() as u8 {
						for remote in [false, true] {
							v.push(KeySpec { alg, idx, rsa_hash: RsaHash::Sha256, remote: remote || !cfg!(feature = "crypto") });
						}
					}
				}
				v
			}, check_spki),
		],
	}
}

#[allow(dead_code)]
fn _unused(_: &dyn Fn() -> BoxedStrategy<u8>) {
	let _ = (mk::KU_ALL, gen::Y1950);
}
