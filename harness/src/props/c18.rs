//! C18 — the CLI writes a usable CA and end-entity pair for any valid options.

use std::collections::BTreeSet;
use std::net::IpAddr;
use std::path::PathBuf;
use std::process::Command;
use std::str::FromStr;
use std::sync::atomic::{AtomicU64, Ordering};

use proptest::prelude::*;
use serde::{Deserialize, Serialize};

use crate::gen;
use crate::keys;
use crate::pemstrict;
use crate::props::common::*;
use crate::runner::*;
use crate::spec::*;
use crate::validate::{self, Chain, Purpose};
use crate::x509::{self, ExtValue, GeneralName};

#[derive(Clone, Debug, Serialize, Deserialize, PartialEq, Eq, Hash)]
pub enum Invalid {
	NonPrintableCountry(String),
	NonAsciiSan(String),
	/// `--rsa` with the ring back end (no RSA key generation)
	RsaOnRing,
	/// `--ecdsa-p521` offered only by the aws-lc-rs build
	P521OnRing,
}

#[derive(Clone, Debug, Serialize, Deserialize, PartialEq, Eq, Hash)]
pub struct CliCase {
	/// "ring" or "aws"
	pub build: String,
	pub alg: Option<String>,
	pub sans: Vec<String>,
	pub common_name: Option<String>,
	pub country: Option<String>,
	pub organization: Option<String>,
	pub client_auth: bool,
	pub server_auth: bool,
	pub cert_name: Option<String>,
	pub ca_name: Option<String>,
	/// relative output directory below the case's scratch directory ("" = the directory itself)
	pub out_rel: String,
	pub precreate: bool,
	/// the output directory already holds (longer) files under the four target names, as after an
	/// earlier run with another key type
	#[serde(default)]
	pub stale: bool,
	/// the output directory's last component is not valid UTF-8 (a Latin-1 file name, legal here)
	#[serde(default)]
	pub non_utf8_dir: bool,
	pub invalid: Option<Invalid>,
}

static COUNTER: AtomicU64 = AtomicU64::new(0);

pub fn cli_path(build: &str) -> String {
	format!("{}/target/cli-{build}/release/rustls-cert-gen", keys::verif_root())
}

pub fn list_files(dir: &std::path::Path, out: &mut Vec<PathBuf>) {
	if let Ok(rd) = std::fs::read_dir(dir) {
		for e in rd.flatten() {
			let p = e.path();
			if p.is_dir() {
				list_files(&p, out);
			} else {
				out.push(p);
			}
		}
	}
}

fn cn_of(n: &x509::Name) -> Option<String> {
	n.rdns.iter().flatten().find(|a| a.oid == [2, 5, 4, 3]).and_then(|a| a.text.clone())
}

pub fn check_cli(c: &CliCase, info: &mut CaseInfo) -> Result<(), String> {
	let exe = cli_path(&c.build);
	if !std::path::Path::new(&exe).exists() {
		return Err(format!("INTERNAL: CLI binary {exe} has not been built"));
	}
	let scratch = PathBuf::from(format!(
		"{}/out/tmp/c18-{}-{}",
		keys::verif_root(),
		std::process::id(),
		COUNTER.fetch_add(1, Ordering::SeqCst)
	));
	let _ = std::fs::remove_dir_all(&scratch);
	std::fs::create_dir_all(&scratch).map_err(|e| format!("INTERNAL: scratch dir: {e}"))?;
	let r = run_case(c, &exe, &scratch, info);
	let _ = std::fs::remove_dir_all(&scratch);
	r
}

fn run_case(c: &CliCase, exe: &str, scratch: &std::path::Path, info: &mut CaseInfo) -> Result<(), String> {
	let mut out_dir = if c.out_rel.is_empty() { scratch.to_path_buf() } else { scratch.join(&c.out_rel) };
	if c.non_utf8_dir {
		use std::os::unix::ffi::OsStringExt;
		out_dir = out_dir.join(std::ffi::OsString::from_vec(b"r\xe9pertoire \xff".to_vec()));
		info.class("output-dir:not-utf8");
	}
	if c.precreate {
		std::fs::create_dir_all(&out_dir).map_err(|e| format!("INTERNAL: {e}"))?;
	}
	{
		let ee = c.cert_name.clone().unwrap_or_else(|| "cert".into());
		let ca = c.ca_name.clone().unwrap_or_else(|| "root-ca".into());
		let collide = ee == ca || ee == format!("{ca}.key") || ca == format!("{ee}.key");
		if c.stale && c.invalid.is_none() && !collide {
			info.class("stale-files-present");
			std::fs::create_dir_all(&out_dir).map_err(|e| format!("INTERNAL: {e}"))?;
			for (name, label) in [(format!("{ee}.pem"), "CERTIFICATE"), (format!("{ee}.key.pem"), "PRIVATE KEY"), (format!("{ca}.pem"), "CERTIFICATE"), (format!("{ca}.key.pem"), "PRIVATE KEY")] {
				let old = pemstrict::encode(label, &vec![0x42u8; 6000]);
				std::fs::write(out_dir.join(name), old).map_err(|e| format!("INTERNAL: {e}"))?;
			}
		}
	}
	let mut cmd = Command::new(exe);
	cmd.arg("--output").arg(&out_dir);
	let mut alg = c.alg.clone();
	let mut sans = c.sans.clone();
	let mut country = c.country.clone();
	match &c.invalid {
		Some(Invalid::NonPrintableCountry(s)) => country = Some(s.clone()),
		Some(Invalid::NonAsciiSan(s)) => sans.push(s.clone()),
		Some(Invalid::RsaOnRing) => alg = Some("--rsa".into()),
		Some(Invalid::P521OnRing) => alg = Some("--ecdsa-p521".into()),
		None => {},
	}
	if let Some(a) = &alg {
		cmd.arg(a);
	}
	for s in &sans {
		cmd.arg("--san").arg(s);
	}
	if let Some(v) = &c.common_name {
		cmd.arg("--common-name").arg(v);
	}
	if let Some(v) = &country {
		cmd.arg("--country-name").arg(v);
	}
	if let Some(v) = &c.organization {
		cmd.arg("--organization-name").arg(v);
	}
	if c.client_auth {
		cmd.arg("--client-auth");
	}
	if c.server_auth {
		cmd.arg("--server-auth");
	}
	if let Some(v) = &c.cert_name {
		cmd.arg("--cert-file-name").arg(v);
	}
	if let Some(v) = &c.ca_name {
		cmd.arg("--ca-file-name").arg(v);
	}
	let out = cmd.output().map_err(|e| format!("INTERNAL: cannot run the CLI: {e}"))?;
	let stderr = String::from_utf8_lossy(&out.stderr).to_string();
	let code = out.status.code();
	let mut files = Vec::new();
	list_files(scratch, &mut files);
	let n_opts = [alg.is_some(), !sans.is_empty(), c.common_name.is_some(), country.is_some(), c.organization.is_some(), c.client_auth, c.server_auth, c.cert_name.is_some(), c.ca_name.is_some(), !c.out_rel.is_empty()]
		.iter()
		.filter(|x| **x)
		.count();
	info.nontrivial = n_opts >= 2;
	info.class(format!("build:{}", c.build));
	info.class(format!("alg:{}", alg.clone().unwrap_or_else(|| "default".into())));

	if let Some(inv) = &c.invalid {
		info.class(format!("invalid:{}", format!("{inv:?}").split('(').next().unwrap_or("")));
		if code == Some(0) {
			return Err(format!("invalid options ({inv:?}) but the tool exits successfully"));
		}
		if code == Some(101) || code.is_none() || stderr.contains("panicked at") {
			return Err(format!("invalid options ({inv:?}) make the tool panic or die (status {:?}): {}", code, stderr.lines().next().unwrap_or("")));
		}
		if !files.is_empty() {
			return Err(format!("invalid options ({inv:?}) but output files were written: {:?}", files));
		}
		return Ok(());
	}
	info.class("valid");
	let ee0 = c.cert_name.clone().unwrap_or_else(|| "cert".into());
	let ca0 = c.ca_name.clone().unwrap_or_else(|| "root-ca".into());
	if ee0 == format!("{ca0}.key") || ca0 == format!("{ee0}.key") {
		// Distinct base names whose files necessarily coincide (X.key.pem): four separate files are
		// impossible, so the only acceptable outcomes are a clean refusal (the standard the property
		// sets for invalid options) or - were the naming scheme ever changed - a complete success.
		info.class("base-names-collide");
		if code != Some(0) {
			if code == Some(101) || code.is_none() || stderr.contains("panicked at") {
				return Err(format!("colliding base names make the tool panic (status {:?})", code));
			}
			if !files.is_empty() {
				return Err(format!("colliding base names were refused but files were written: {:?}", files));
			}
			info.class("base-names-collide:refused");
			return Ok(());
		}
	}
	if code != Some(0) {
		return Err(format!("valid options but exit status {:?}: {}", code, stderr.lines().take(3).collect::<Vec<_>>().join(" | ")));
	}
	let ee = c.cert_name.clone().unwrap_or_else(|| "cert".into());
	let ca = c.ca_name.clone().unwrap_or_else(|| "root-ca".into());
	let want: BTreeSet<PathBuf> = [format!("{ee}.pem"), format!("{ee}.key.pem"), format!("{ca}.pem"), format!("{ca}.key.pem")]
		.iter()
		.map(|f| out_dir.join(f))
		.collect();
	let got: BTreeSet<PathBuf> = files.iter().cloned().collect();
	if got != want {
		return Err(format!("expected exactly the files {:?}, found {:?}", want, got));
	}
	let read = |name: String| std::fs::read_to_string(out_dir.join(&name)).map_err(|e| format!("cannot read {name}: {e}"));
	let ee_der = pemstrict::decode(&read(format!("{ee}.pem"))?, "CERTIFICATE").map_err(|e| format!("{ee}.pem: {e}"))?;
	let ca_der = pemstrict::decode(&read(format!("{ca}.pem"))?, "CERTIFICATE").map_err(|e| format!("{ca}.pem: {e}"))?;
	let ee_key = pemstrict::decode(&read(format!("{ee}.key.pem"))?, "PRIVATE KEY").map_err(|e| format!("{ee}.key.pem: {e}"))?;
	let ca_key = pemstrict::decode(&read(format!("{ca}.key.pem"))?, "PRIVATE KEY").map_err(|e| format!("{ca}.key.pem: {e}"))?;
	let (eec, _) = decode_cert(&ee_der)?;
	let (cac, _) = decode_cert(&ca_der)?;
	// each key matches its certificate
	for (name, key, cert) in [("end-entity", &ee_key, &eec), ("CA", &ca_key, &cac)] {
		let spki = public_of_private(key).map_err(|e| format!("{name} key: {e}"))?;
		if spki != cert.spki.raw {
			return Err(format!("the {name} key file does not hold the key of the {name} certificate"));
		}
	}
	// key algorithm as requested
	let want_alg = match alg.as_deref() {
		None | Some("--ecdsa-p256") => KeyAlg::P256,
		Some("--ecdsa-p384") => KeyAlg::P384,
		Some("--ecdsa-p521") => KeyAlg::P521,
		Some("--ed25519") => KeyAlg::Ed25519,
		_ => KeyAlg::Rsa2048,
	};
	for cert in [&eec, &cac] {
		if cert.spki.alg.raw != keys::rfc_spki_alg_id(want_alg) {
			return Err(format!("certificate key algorithm {} is not the requested {:?}", crate::der::hex(&cert.spki.alg.raw), want_alg));
		}
	}
	// CA is a CA with certificate-signing and CRL-signing usage
	let bc = x509::find_ext(&cac.extensions, x509::OID_BC);
	if !bc.iter().any(|e| matches!(e.value, ExtValue::BasicConstraints { ca: true, .. })) {
		return Err("the CA certificate is not marked as a CA".into());
	}
	let ku: BTreeSet<u32> = x509::find_ext(&cac.extensions, x509::OID_KU)
		.iter()
		.flat_map(|e| match &e.value {
			ExtValue::KeyUsage(b) => b.clone(),
			_ => vec![],
		})
		.collect();
	if !ku.contains(&5) || !ku.contains(&6) {
		return Err(format!("the CA certificate's key usage {:?} lacks keyCertSign / cRLSign", ku));
	}
	// end entity: names, common name, purposes
	let mut got_sans: Vec<GeneralName> = Vec::new();
	for e in x509::find_ext(&eec.extensions, x509::OID_SAN) {
		if let ExtValue::San(v) = &e.value {
			got_sans.extend(v.iter().cloned());
		}
	}
	let want_sans: Vec<GeneralName> = sans
		.iter()
		.map(|s| match IpAddr::from_str(s) {
			Ok(IpAddr::V4(a)) => GeneralName::Ip(a.octets().to_vec()),
			Ok(IpAddr::V6(a)) => GeneralName::Ip(a.octets().to_vec()),
			Err(_) => GeneralName::Dns(s.as_bytes().to_vec()),
		})
		.collect();
	if got_sans != want_sans {
		return Err(format!("end-entity SANs {:?} differ from the given names {:?}", got_sans, sans));
	}
	for s in &sans {
		info.class(if IpAddr::from_str(s).is_ok() { "san:ip" } else { "san:dns" });
	}
	let want_cn = c.common_name.clone().unwrap_or_else(|| "Tls End-Entity Certificate".into());
	if cn_of(&eec.subject).as_deref() != Some(want_cn.as_str()) {
		return Err(format!("end-entity common name {:?}, given {:?}", cn_of(&eec.subject), want_cn));
	}
	let ekus: BTreeSet<Vec<u64>> = x509::find_ext(&eec.extensions, x509::OID_EKU)
		.iter()
		.flat_map(|e| match &e.value {
			ExtValue::Eku(v) => v.clone(),
			_ => vec![],
		})
		.collect();
	let mut want_eku = BTreeSet::new();
	if c.client_auth {
		want_eku.insert(EkuSpec::ClientAuth.oid());
	}
	if c.server_auth {
		want_eku.insert(EkuSpec::ServerAuth.oid());
	}
	if ekus != want_eku {
		return Err(format!("end-entity extended key usages {:?}, requested client={} server={}", ekus, c.client_auth, c.server_auth));
	}
	// chain under independent validators
	let at = 1_700_000_000;
	let purpose = if c.client_auth && !c.server_auth { Purpose::Client } else if c.server_auth { Purpose::Server } else { Purpose::Any };
	let chain = Chain { leaf: &ee_der, intermediates: vec![], root: &ca_der, at, purpose };
	if let Err((code, text)) = validate::openssl_verify(&chain) {
		return Err(format!("OpenSSL rejects end entity -> CA: error {code} ({text})"));
	}
	if want_alg != KeyAlg::P521 {
		if let Err(e) = validate::webpki_verify(&chain) {
			return Err(format!("webpki rejects end entity -> CA: {e}"));
		}
	}
	Ok(())
}

/// SubjectPublicKeyInfo of a PKCS#8 private key (Ed25519 v2 documents are not read by OpenSSL:
/// the seed is used directly).
pub fn public_of_private(pk8: &[u8]) -> Result<Vec<u8>, String> {
	if let Ok(k) = openssl::pkey::PKey::private_key_from_der(pk8) {
		return k.public_key_to_der().map_err(|e| e.to_string());
	}
	let _ = openssl::error::ErrorStack::get();
	let pos = pk8.windows(4).position(|w| w == [0x04, 0x22, 0x04, 0x20]).ok_or("unreadable private key")?;
	let seed = pk8.get(pos + 4..pos + 36).ok_or("truncated seed")?;
	openssl::pkey::PKey::private_key_from_raw_bytes(seed, openssl::pkey::Id::ED25519)
		.and_then(|k| k.public_key_to_der())
		.map_err(|e| e.to_string())
}

fn safe_text() -> BoxedStrategy<String> {
	// option values: no leading '-', no NUL
	prop_oneof![
		3 => "[A-Za-z0-9 ._]{1,16}",
		// values that read like syntax: attribute assignments, paths, quotes, escapes
		1 => prop::sample::select(vec!["CN=device-17", "cn=x", "/CN=host", "O=Acme,CN=www", "CN=", "a=b", "x+y", "\"quoted\"", "a\\,b", "#0c0141", " lead", "trail ", "a,b;c", "<cn>"]).prop_map(|s| s.to_string()),
		1 => "[a-zäöüßéñ中文 ]{1,10}",
		1 => gen::text_for(StrKind::Utf8, 10),
		// long values around the 64 / 128 / 256 marks (X.520 upper bounds, DER length forms) and beyond
		1 => (prop::sample::select(vec![62usize, 63, 126, 127, 254, 255, 300, 1000]), 0usize..4, any::<bool>()).prop_map(|(n, d, wide)| {
			(0..n + d).map(|i| if wide && i % 7 == 3 { 'é' } else { (b'a' + (i % 26) as u8) as char }).collect::<String>()
		}),
	]
	.prop_map(|s| {
		let s: String = s.chars().filter(|c| *c != '\0').collect();
		if s.starts_with('-') || s.is_empty() {
			format!("x{s}")
		} else {
			s
		}
	})
	.boxed()
}

fn file_name() -> BoxedStrategy<String> {
	prop_oneof![
		6 => "[a-z][a-z0-9_]{0,10}",
		2 => "[A-Za-z0-9 ._äö]{1,12}",
		1 => "[a-z]{1,3}(\\.key|\\.pem|\\.key\\.pem){1,2}",
	]
	.prop_map(|s| {
		let s = s.trim_matches(|c| c == '.' || c == ' ').to_string();
		if s.is_empty() || s.starts_with('-') {
			"n".to_string()
		} else {
			s
		}
	})
	.boxed()
}

fn san_value() -> BoxedStrategy<String> {
	prop_oneof![
		4 => hostname_strategy(),
		2 => any::<[u8; 4]>().prop_map(|b| format!("{}.{}.{}.{}", b[0], b[1], b[2], b[3])),
		2 => any::<[u16; 8]>().prop_map(|w| std::net::Ipv6Addr::new(w[0], w[1], w[2], w[3], w[4], w[5], w[6], w[7]).to_string()),
		2 => prop::sample::select(vec!["::1", "::", "1.2.3.4", "2001:db8::1", "::ffff:10.0.0.1", "localhost", "1.2.3", "1.2.3.4.5", "256.1.1.1", "01.2.3.4", "::g", "1.2.3.4:80", "[::1]", "a", "*.example.com", "xn--bcher-kva.example"]).prop_map(|s| s.to_string()),
		// names that look like other name forms: every one of them is "everything else", a DNS name
		1 => prop::sample::select(vec!["spiffe://example.org/ns/prod", "x://", "https://example.com/", "mailto:a@example.com", "user@example.com", "DNS:example.com", "IP:1.2.3.4", "URI:x", "email:a@b", "example.com.", "2001:DB8::G", "0x7f.0.0.1", "1.2.3.4/24", "fe80::1%eth0"]).prop_map(|s| s.to_string()),
	]
	.boxed()
}

fn country() -> BoxedStrategy<String> {
	prop_oneof!["[A-Z]{2}", "[A-Za-z0-9 '()+,./:=?-]{1,8}"]
		.prop_map(|s| if s.starts_with('-') { format!("A{s}") } else { s })
		.boxed()
}

fn cli_case() -> BoxedStrategy<CliCase> {
	(
		(
			prop::sample::select(vec!["ring".to_string(), "aws".to_string()]),
			prop_oneof![3 => Just(None), 1 => Just(Some("--ed25519")), 1 => Just(Some("--ecdsa-p256")), 1 => Just(Some("--ecdsa-p384")), 1 => Just(Some("--ecdsa-p521")), 1 => Just(Some("--rsa"))],
			proptest::collection::vec(san_value(), 0..6),
			prop::option::of(safe_text()),
			prop::option::of(country()),
			prop::option::of(safe_text()),
			any::<bool>(),
			any::<bool>(),
		),
		(
			prop::option::of(file_name()),
			prop::option::of(file_name()),
			prop_oneof![2 => Just(String::new()), 1 => Just("out".to_string()), 1 => Just("a/b c/ü".to_string()), 1 => file_name()],
			(any::<bool>(), prop::bool::weighted(0.25), prop::bool::weighted(0.08)),
			prop_oneof![
				6 => Just(None),
				// a country string with exactly one character outside the PrintableString alphabet, at any position
				2 => ("[A-Za-z0-9 ]{0,3}", prop_oneof![
						4 => (0x21u8..0x7f).prop_filter_map("printable", |b| if StrKind::Printable.admits(b as char) { None } else { Some(b as char) }),
						1 => prop::sample::select(vec!['Ä', 'é', '\u{7f}', '\u{1}', '中', '\u{80}', 'ß', 'ſ', 'ı', 'ﬀ', 'ﬆ', 'İ', 'ǰ', 'ΐ', '\u{212a}', '\u{ff21}']),
					], "[A-Za-z0-9 ]{0,3}").prop_map(|(a, c, b)| {
						let s = format!("{a}{c}{b}");
						Some(Invalid::NonPrintableCountry(if s.starts_with('-') { format!("A{s}") } else { s }))
					}),
				// the same, long: the offending character sits anywhere around the 64/128/256-byte marks
			1 => (prop::sample::select(vec![60usize, 124, 252]), 0usize..8, prop::sample::select(vec!['é', 'Ä', '中', '\u{80}', '😀', '$']), "[A-Za-z0-9 ]{0,3}").prop_map(|(n, d, c, b)| {
					Some(Invalid::NonPrintableCountry(format!("{}{c}{c}{b}", "A".repeat(n + d))))
				}),
			1 => prop_oneof![Just("exämple.com"), Just("bücher.example"), Just("日本.jp"), Just("a\u{80}")].prop_map(|s| Some(Invalid::NonAsciiSan(s.to_string()))),
			1 => (prop::sample::select(vec![60usize, 124, 252]), 0usize..8, prop::sample::select(vec!['é', 'ü', '中', '\u{80}', '😀'])).prop_map(|(n, d, c)| {
					Some(Invalid::NonAsciiSan(format!("{}{c}{c}.example", "a".repeat(n + d))))
				}),
				1 => Just(Some(Invalid::RsaOnRing)),
				1 => Just(Some(Invalid::P521OnRing)),
			],
		),
	)
		.prop_map(|((build, alg, sans, common_name, country, organization, client_auth, server_auth), (cert_name, ca_name, out_rel, (precreate, stale, non_utf8_dir), invalid))| {
			let mut build = build;
			let mut alg = alg.map(|s| s.to_string());
			// algorithm offered by the build
			if build == "ring" && matches!(alg.as_deref(), Some("--rsa") | Some("--ecdsa-p521")) {
				alg = None;
			}
			if matches!(invalid, Some(Invalid::RsaOnRing) | Some(Invalid::P521OnRing)) {
				build = "ring".to_string();
			}
			// distinct base names that do not collide on a file name (X vs X.key is the recorded relation, generated separately)
			let ee = cert_name.clone().unwrap_or_else(|| "cert".into());
			let ca = ca_name.clone().unwrap_or_else(|| "root-ca".into());
			let collide = ee == ca || ee == format!("{ca}.key") || ca == format!("{ee}.key");
			CliCase {
				build,
				alg,
				sans,
				common_name,
				country,
				organization,
				client_auth,
				server_auth,
				cert_name: if collide { Some(format!("{ee}-ee")) } else { cert_name },
				ca_name,
				out_rel,
				precreate,
				stale,
				non_utf8_dir,
				invalid,
			}
		})
		.boxed()
}

/// Distinct base names related by `X` / `X.key`: both need the file `X.key.pem`.
fn collide_case() -> BoxedStrategy<CliCase> {
	(cli_case(), file_name(), 0usize..3, any::<bool>())
		.prop_map(|(mut c, x, nested, flip)| {
			// the shorter name may itself end in ".key" (X.key / X.key.key)
			let x = format!("{x}{}", ".key".repeat(nested));
			c.invalid = None;
			if c.build == "ring" && c.alg.as_deref() == Some("--rsa") {
				c.alg = None;
			}
			let (a, b) = (x.clone(), format!("{x}.key"));
			if flip {
				c.cert_name = Some(a);
				c.ca_name = Some(b);
			} else {
				c.cert_name = Some(b);
				c.ca_name = Some(a);
			}
			c
		})
		.boxed()
}

pub fn def() -> PropertyDef {
	PropertyDef {
		id: "C18",
		rule: "The real rustls-cert-gen binaries (ring and aws-lc-rs builds) are run with generated option sets: each key algorithm the build offers, 0..5 --san values (host names, IPv4/IPv6 literals, look-alikes such as 1.2.3 or 256.1.1.1), common/country/organisation strings incl. non-ASCII and lengths around 64/128/256 up to 1000 characters, both purpose flags, base names, output directories (existing, missing, nested, with spaces / non-ASCII; in a quarter of the valid cases already holding longer files under the four target names, which must be replaced). Valid: exit 0, exactly the four files, strict PEM, each key matches its certificate, requested key algorithm, CA is a CA with keyCertSign+cRLSign, SANs / CN / EKUs exactly as given, OpenSSL and webpki accept leaf -> CA. Invalid (non-printable country, non-ASCII SAN, --rsa / --ecdsa-p521 on ring): non-zero exit, no panic, no file written. Non-trivial = at least two non-default options.",
		assumptions: vec!["OpenSSL and webpki path validation; verification time 2023-11-14", "option values never start with '-' (they would be parsed as flags)"],
		subs: vec![
			prop_sub("options", 1_600, 12_000, cli_case, check_cli),
			prop_sub("colliding-base-names", 240, 1_000, collide_case, check_cli),
		],
	}
}
