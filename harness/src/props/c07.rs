//! C07 — a CSR says exactly what its parameters say, or is refused.

use std::collections::BTreeSet;

use proptest::prelude::*;
use serde::{Deserialize, Serialize};

use crate::gen;
use crate::keys;
use crate::mk;
use crate::model;
use crate::props::common::*;
use crate::runner::*;
use crate::spec::*;

pub fn check_content(case: &CsrCase, info: &mut CaseInfo) -> Result<(), String> {
	let fields = case.spec.ext_fields_set();
	info.nontrivial = !fields.is_empty() || !case.attrs.is_empty();
	info.class(format!("ext-fields:{}", fields.len()));
	if fields.len() == 1 {
		info.class(format!("only:{}", fields[0]));
	}
	info.class(format!("attrs:{}", case.attrs.len().min(3)));
	info.class(format!("key:{}", case.key.label()));
	let (csr, _) = build_csr(case)?;
	let (c, _) = decode_csr(csr.der())?;
	model::check_csr(&c, &case.spec, &keys::fixture(&case.key).spki, &csr_attr_pairs(case))
}

/// Which CSR-inexpressible fields are set (bit 0 serial, 1 is_ca, 2 name constraints,
/// 3 CRL distribution points, 4 authority key identifier flag).
#[derive(Clone, Debug, Serialize, Deserialize, PartialEq, Eq, Hash)]
pub struct RefusalCase {
	pub mask: u8,
	pub base: CsrCase,
	pub is_ca: IsCaSpec,
	pub empty_nc: bool,
}

pub fn apply_unsupported(spec: &mut CertSpec, mask: u8, is_ca: IsCaSpec, empty_nc: bool) {
	if mask & 1 != 0 {
		spec.serial = Some(Hex(vec![1, 2, 3]));
	}
	if mask & 2 != 0 {
		spec.is_ca = is_ca;
	}
	if mask & 4 != 0 {
		spec.name_constraints = Some(if empty_nc {
			NcSpec::default()
		} else {
			NcSpec { permitted: vec![SubtreeSpec::Dns("example.com".into())], excluded: vec![] }
		});
	}
	if mask & 8 != 0 {
		spec.crl_dps = vec![vec!["http://crl.example/x".into()]];
	}
	if mask & 16 != 0 {
		spec.use_aki = true;
	}
}

pub fn check_refusal(case: &RefusalCase, info: &mut CaseInfo) -> Result<(), String> {
	info.nontrivial = true;
	info.class(format!("unsupported-fields:{}", (case.mask & 31).count_ones()));
	let mut c = case.base.clone();
	apply_unsupported(&mut c.spec, case.mask & 31, case.is_ca, case.empty_nc);
	let params = mk::cert_params(&c.spec)?;
	let key = keys::make_key(&c.key)?;
	let attrs: Vec<rcgen::Attribute> = c.attrs.iter().map(mk::attribute).collect();
	let r = params.serialize_request_with_attributes(&key, attrs);
	let unsupported = case.mask & 31 != 0 && !(case.mask & 31 == 2 && case.is_ca == IsCaSpec::NoCa);
	match (r, unsupported) {
		(Ok(_), true) => Err(format!(
			"a CSR was produced although parameters a CSR cannot express are set (mask {:05b}); they were silently dropped",
			case.mask & 31
		)),
		(Err(e), false) => Err(format!("CSR refused ({e}) although only expressible fields are set")),
		_ => Ok(()),
	}
}

fn refusal_sweep(_cfg: &RunCfg) -> Vec<RefusalCase> {
	let mut v = Vec::new();
	let key = KeySpec { alg: KeyAlg::Ed25519, idx: 3, rsa_hash: RsaHash::Sha256, remote: !cfg!(feature = "crypto") };
	let mut rich = CertSpec::minimal();
	rich.sans = vec![SanSpec::Dns("a.example".into())];
	rich.key_usages = vec![0, 2];
	rich.ekus = vec![EkuSpec::ServerAuth];
	for base_spec in [CertSpec::minimal(), rich] {
		for mask in 0u8..32 {
			for is_ca in [IsCaSpec::ExplicitNoCa, IsCaSpec::CaUnconstrained, IsCaSpec::CaConstrained(0)] {
				for empty_nc in [false, true] {
					if mask & 2 == 0 && is_ca != IsCaSpec::ExplicitNoCa {
						continue;
					}
					if mask & 4 == 0 && empty_nc {
						continue;
					}
					v.push(RefusalCase {
						mask,
						base: CsrCase { spec: base_spec.clone(), key, attrs: vec![] },
						is_ca,
						empty_nc,
					});
				}
			}
		}
	}
	v
}

/// Round trip through rcgen's own CSR parser, inside its documented support: standard
/// EKUs, no custom extensions, names whose attribute types are distinct.
pub fn roundtrip_case() -> BoxedStrategy<CsrCase> {
	// Attribute types x509-parser gives a typed decoding (challengePassword, index 0, must hold a
	// string; unstructuredName likewise) get a well-typed value; a NULL there would be the
	// caller's malformed attribute, not rcgen's output.
	(gen::csr_spec(true, true, false), gen::key_spec(), proptest::collection::vec(gen::attr_spec(), 0..3), "[a-zA-Z0-9]{1,12}", prop_oneof![3 => Just(vec![]), 1 => proptest::collection::vec(crate::props::c17::wide_arc(), 1..4)])
		.prop_map(|(mut spec, key, mut attrs, pw, wide)| {
			// attribute types and otherName type-ids with arcs from the whole u64 range
			crate::props::c17::widen_arcs(&mut spec, &wide);
			for a in attrs.iter_mut() {
				if a.oid_idx as usize % mk::ATTR_OIDS.len() < 2 {
					a.values = Hex(crate::der::enc_tlv(0x31, &crate::der::enc_tlv(0x0c, pw.as_bytes())));
				}
			}
			CsrCase { spec, key, attrs }
		})
		.boxed()
}

pub fn dn_pairs(dn: &rcgen::DistinguishedName) -> Vec<(Vec<u64>, String)> {
	dn.iter()
		.map(|(t, v)| {
			let oid = match t {
				rcgen::DnType::CountryName => vec![2, 5, 4, 6],
				rcgen::DnType::LocalityName => vec![2, 5, 4, 7],
				rcgen::DnType::StateOrProvinceName => vec![2, 5, 4, 8],
				rcgen::DnType::OrganizationName => vec![2, 5, 4, 10],
				rcgen::DnType::OrganizationalUnitName => vec![2, 5, 4, 11],
				rcgen::DnType::CommonName => vec![2, 5, 4, 3],
				rcgen::DnType::CustomDnType(o) => o.clone(),
				_ => vec![],
			};
			(oid, format!("{v:?}"))
		})
		.collect()
}

pub fn check_roundtrip(case: &CsrCase, info: &mut CaseInfo) -> Result<(), String> {
	let fields = case.spec.ext_fields_set();
	info.nontrivial = !fields.is_empty();
	info.class(format!("key:{}", case.key.label()));
	let (csr, key) = build_csr(case)?;
	let input = mk::cert_params(&case.spec)?;
	let parsed = match rcgen::CertificateSigningRequestParams::from_der(csr.der()) {
		Ok(p) => p,
		Err(e) => {
			if let Some(line) = crate::findings::c07_parse_back_refused(case, &e) {
				info.class(line);
				return Ok(());
			}
			return Err(format!("parsing a generated request back failed: {e}"));
		},
	};
	if dn_pairs(&parsed.params.distinguished_name) != dn_pairs(&input.distinguished_name) {
		return Err(format!(
			"subject differs after parsing back: {:?} vs {:?}",
			dn_pairs(&parsed.params.distinguished_name),
			dn_pairs(&input.distinguished_name)
		));
	}
	if parsed.params.subject_alt_names != input.subject_alt_names {
		return Err(format!("SANs differ after parsing back: {:?} vs {:?}", parsed.params.subject_alt_names, input.subject_alt_names));
	}
	let ku = |v: &Vec<rcgen::KeyUsagePurpose>| v.iter().map(mk::ku_index).collect::<BTreeSet<_>>();
	if ku(&parsed.params.key_usages) != ku(&input.key_usages) {
		return Err(format!("key usages differ after parsing back: {:?} vs {:?}", parsed.params.key_usages, input.key_usages));
	}
	let eku = |v: &Vec<rcgen::ExtendedKeyUsagePurpose>| v.iter().map(|e| mk::eku_spec(e).oid()).collect::<BTreeSet<_>>();
	if eku(&parsed.params.extended_key_usages) != eku(&input.extended_key_usages) {
		return Err(format!("EKUs differ after parsing back: {:?} vs {:?}", parsed.params.extended_key_usages, input.extended_key_usages));
	}
	use rcgen::PublicKeyData;
	if parsed.public_key.der_bytes() != key.public_key_raw() {
		return Err("public key differs after parsing back".into());
	}
	if parsed.public_key.algorithm() != key.algorithm() {
		return Err(format!("key algorithm differs after parsing back: {:?} vs {:?}", parsed.public_key.algorithm(), key.algorithm()));
	}
	Ok(())
}

pub fn def() -> PropertyDef {
	PropertyDef {
		id: "C07",
		rule: "CSR-expressible Specs (subject, SAN, KU, EKU, custom extensions; each alone, subsets, all) x 0..4 caller attributes (any OID order, duplicates) x every key algorithm -> harness RFC 2986 decoder -> reference model; refusal sweep: all 32 subsets of the five inexpressible fields x IsCa variants x empty/non-empty name constraints x two base Specs; round trip through rcgen's own parser inside its documented support. Non-trivial = at least one extension field or attribute set, or a refusal case.",
		assumptions: vec!["the harness decoder", "round trip: names with distinct attribute OIDs, standard EKUs, no custom extensions (the parser's documented support)"],
		subs: vec![
			prop_sub("content", 60_000, 800_000, || csr_case(false), check_content),
			sweep_sub("refusal-sweep", refusal_sweep, check_refusal),
			prop_sub("refusal-random", 15_000, 100_000, || {
				(any::<u8>(), csr_case(true), gen::is_ca_set(), any::<bool>())
					.prop_map(|(mask, base, is_ca, empty_nc)| RefusalCase { mask, base, is_ca, empty_nc })
					.boxed()
			}, check_refusal),
			prop_sub("roundtrip", 30_000, 300_000, roundtrip_case, check_roundtrip),
		],
	}
}
