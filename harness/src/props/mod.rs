pub mod common;
pub mod selftest;
pub mod c01;
pub mod c02;
pub mod c03;
pub mod c04;
pub mod c05;
pub mod c06;
pub mod c07;
pub mod c08;
pub mod c09;
pub mod c10;
#[cfg(feature = "crypto")]
pub mod c11;
pub mod c12;
pub mod c13;
pub mod c14;
pub mod c15;
pub mod c16;
pub mod c17;
pub mod c18;
#[cfg(feature = "crypto")]
pub mod c19;
pub mod c20;

use crate::runner::PropertyDef;

pub fn lookup(id: &str) -> Option<PropertyDef> {
	Some(match id {
		"C01" => c01::def(),
		"C02" => c02::def(),
		"C03" => c03::def(),
		"C04" => c04::def(),
		"C05" => c05::def(),
		"C06" => c06::def(),
		"C07" => c07::def(),
		"C08" => c08::def(),
		"C09" => c09::def(),
		"C10" => c10::def(),
		#[cfg(feature = "crypto")]
		"C11" => c11::def(),
		"C12" => c12::def(),
		"C13" => c13::def(),
		"C14" => c14::def(),
		"C15" => c15::def(),
		"C16" => c16::def(),
		"C17" => c17::def(),
		"C18" => c18::def(),
		#[cfg(feature = "crypto")]
		"C19" => c19::def(),
		"C20" => c20::def(),
		_ => return None,
	})
}

pub const ALL: &[&str] = &["C01", "C02", "C03", "C04", "C05", "C06", "C07", "C08", "C09", "C10", "C11", "C12", "C13", "C14", "C15", "C16", "C17", "C18", "C19", "C20"];
