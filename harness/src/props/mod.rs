pub mod common;
pub mod c02;

use crate::runner::PropertyDef;

pub fn lookup(id: &str) -> Option<PropertyDef> {
	Some(match id {
		"C02" => c02::def(),
		_ => return None,
	})
}

pub const ALL: &[&str] = &["C02"];
