//! C08 — a CRL revokes exactly the listed certificates and says what was asked.

use proptest::prelude::*;
use serde::{Deserialize, Serialize};

use crate::gen;
use crate::keys;
use crate::mk;
use crate::model;
use crate::props::common::*;
use crate::runner::*;
use crate::spec::*;

fn openssl_revoked(crl: &openssl::x509::X509Crl, serial_magnitude: &[u8]) -> Result<bool, String> {
	use openssl::asn1::Asn1Integer;
	use openssl::bn::BigNum;
	use openssl::x509::CrlStatus;
	let bn = BigNum::from_slice(serial_magnitude).map_err(|e| e.to_string())?;
	let ai = Asn1Integer::from_bn(&bn).map_err(|e| e.to_string())?;
	Ok(match crl.get_by_serial(&ai) {
		CrlStatus::NotRevoked => false,
		CrlStatus::Revoked(_) | CrlStatus::RemoveFromCrl(_) => true,
	})
}

pub fn check_content(case: &CrlCase, info: &mut CaseInfo) -> Result<(), String> {
	info.nontrivial = case.crl.idp.is_some() || case.crl.revoked.iter().any(|r| r.reason.is_some() || r.invalidity_date.is_some());
	info.class(format!("entries:{}", case.crl.revoked.len().min(3)));
	info.class(format!("kid:{}", crate::props::c02::kid_name(&case.crl.kid)));
	info.class(format!("issuer-key:{}", case.issuer.key.label()));
	match &case.crl.idp {
		None => info.class("idp:none"),
		Some(i) => info.class(format!("idp:{:?}", i.scope)),
	}
	for r in &case.crl.revoked {
		info.class(format!("reason:{:?}", r.reason));
	}
	let built = build_crl(case)?.map_err(|e| format!("CRL signed_by refused a valid request: {e}"))?;
	let (c, _) = decode_crl(built.crl.der())?;
	model::check_crl(&c, &case.crl, &case.issuer.spec.dn, &keys::fixture(&case.issuer.key).spki)?;

	// independent revocation checker: revoked iff listed
	let ocrl = openssl::x509::X509Crl::from_der(built.crl.der()).map_err(|e| format!("OpenSSL cannot parse the CRL: {e}"))?;
	let listed: Vec<Vec<u8>> = case.crl.revoked.iter().map(|r| model::strip_zeros(&r.serial.0)).collect();
	for s in &listed {
		if !openssl_revoked(&ocrl, s)? {
			return Err(format!("OpenSSL reports listed serial {} as not revoked", crate::der::hex(s)));
		}
	}
	// unlisted serials derived from the listed ones (neighbours) and fixed probes
	let mut probes: Vec<Vec<u8>> = vec![vec![], vec![1], vec![0x7f], vec![0x80], vec![0xff, 0xff]];
	for s in &listed {
		let mut p = s.clone();
		p.push(0x01);
		probes.push(p);
		if let Some(last) = s.last() {
			let mut q = s.clone();
			*q.last_mut().unwrap() = last ^ 1;
			probes.push(model::strip_zeros(&q));
		}
		if s.len() > 1 {
			probes.push(model::strip_zeros(&s[1..]));
		}
	}
	for p in probes {
		if listed.contains(&p) {
			continue;
		}
		if openssl_revoked(&ocrl, &p)? {
			return Err(format!("OpenSSL reports unlisted serial {} as revoked", crate::der::hex(&p)));
		}
	}
	Ok(())
}

/// thisUpdate / nextUpdate ordering rule.
#[derive(Clone, Debug, Serialize, Deserialize, PartialEq, Eq, Hash)]
pub struct OrderCase {
	pub this_update: TimeSpec,
	pub next_update: TimeSpec,
}

pub fn check_order(case: &OrderCase, info: &mut CaseInfo) -> Result<(), String> {
	let (a, b) = (&case.this_update, &case.next_update);
	let diff_ns = (b.unix as i128 - a.unix as i128) * 1_000_000_000 + b.nanos as i128 - a.nanos as i128;
	info.nontrivial = diff_ns.abs() < 2_000_000_000;
	info.class(match diff_ns {
		d if d < 0 => "next<this",
		0 => "equal",
		d if d < 1_000_000_000 => "sub-second-later",
		_ => "later",
	});
	// what gets encoded is the instant truncated to whole seconds
	let must_refuse = b.unix <= a.unix;
	info.class(if must_refuse { "must-refuse" } else { "must-accept" });
	let crl = CrlSpec {
		this_update: *a,
		next_update: *b,
		crl_number: Hex(vec![1]),
		idp: None,
		revoked: vec![],
		kid: KidSpec::Pre(Hex(vec![1, 2, 3])),
	};
	let issuer = IssuerCase {
		spec: CertSpec::minimal(),
		key: KeySpec { alg: KeyAlg::Ed25519, idx: 0, rsa_hash: RsaHash::Sha256, remote: !cfg!(feature = "crypto") },
	};
	match build_crl(&CrlCase { crl, issuer })? {
		Ok(built) => {
			if must_refuse {
				let (c, _) = decode_crl(built.crl.der())?;
				return Err(format!(
					"a CRL was produced whose encoded nextUpdate ({}) is not later than its encoded thisUpdate ({})",
					c.next_update.map(|t| t.text).unwrap_or_default(),
					c.this_update.text
				));
			}
			let (c, _) = decode_crl(built.crl.der())?;
			let nu = c.next_update.ok_or("no nextUpdate")?;
			if nu.unix <= c.this_update.unix {
				return Err("encoded nextUpdate is not later than encoded thisUpdate".into());
			}
			Ok(())
		},
		Err(e) => {
			if must_refuse {
				Ok(())
			} else {
				Err(format!("CRL refused ({e}) although the encoded nextUpdate would be later than thisUpdate"))
			}
		},
	}
}

fn order_case() -> BoxedStrategy<OrderCase> {
	(
		gen::time_valid(),
		prop_oneof![
			3 => Just(0i64),
			2 => Just(1i64),
			2 => Just(-1i64),
			1 => -100_000i64..100_000,
			1 => 2i64..1_000_000_000,
		],
		gen::nanos(),
		gen::offset(),
	)
		.prop_map(|(a, ds, n2, off2)| {
			let unix = (a.unix + ds).clamp(gen::Y0_START, gen::Y9999_END);
			OrderCase { this_update: a, next_update: gen::clamp_time(unix, n2, off2) }
		})
		.boxed()
}

/// Issuer key-usage rule: refuse iff usages are declared and lack cRLSign.
#[derive(Clone, Debug, Serialize, Deserialize, PartialEq, Eq, Hash)]
pub struct KuCase {
	pub ku_mask: u16,
}

pub fn check_ku(case: &KuCase, info: &mut CaseInfo) -> Result<(), String> {
	let bits: Vec<u8> = (0u8..9).filter(|b| case.ku_mask & (1 << b) != 0).collect();
	let must_refuse = !bits.is_empty() && !bits.contains(&6);
	info.nontrivial = true;
	info.class(if must_refuse { "must-refuse" } else { "must-accept" });
	let mut spec = CertSpec::minimal();
	spec.key_usages = bits;
	spec.is_ca = IsCaSpec::CaUnconstrained;
	let crl = CrlSpec {
		this_update: TimeSpec { unix: 1_600_000_000, nanos: 0, offset: 0 },
		next_update: TimeSpec { unix: 1_700_000_000, nanos: 0, offset: 0 },
		crl_number: Hex(vec![1]),
		idp: None,
		revoked: vec![],
		kid: KidSpec::Pre(Hex(vec![1, 2, 3])),
	};
	let issuer = IssuerCase {
		spec,
		key: KeySpec { alg: KeyAlg::Ed25519, idx: 0, rsa_hash: RsaHash::Sha256, remote: !cfg!(feature = "crypto") },
	};
	match (build_crl(&CrlCase { crl, issuer })?, must_refuse) {
		(Ok(_), true) => Err("a CRL was produced although the issuer declares key usages that lack cRLSign".into()),
		(Err(e), false) => Err(format!("CRL refused ({e}) although the issuer may sign CRLs")),
		_ => Ok(()),
	}
}

pub fn def() -> PropertyDef {
	let _ = mk::KU_ALL;
	PropertyDef {
		id: "C08",
		rule: "CRL Specs (0..5 entries, all reason codes and none, invalidity dates, serials/CRL numbers with every leading-byte pattern, IDP with both scopes and none, four key-id methods, every issuer key algorithm) -> harness decoder -> reference model, plus OpenSSL X509_CRL_get0_by_serial on listed and unlisted (neighbouring) serials; refusal rules: thisUpdate/nextUpdate pairs at differences <0, 0, sub-second, 1 s, large across offsets; all 512 issuer key-usage sets. Non-trivial = entry extension or IDP present, pair within 2 s, every key-usage set.",
		assumptions: vec!["the harness decoder", "OpenSSL's CRL lookup semantics (serial equality as integers)"],
		subs: vec![
			prop_sub("content", 80_000, 600_000, || crl_case(false, false), check_content),
			prop_sub("order", 64_000, 400_000, order_case, check_order),
			sweep_sub("issuer-ku-sweep", |_| (0u16..512).map(|m| KuCase { ku_mask: m }).collect(), check_ku),
		],
	}
}
