//! C08 — a CRL revokes exactly the listed certificates and says what was asked.

use proptest::prelude::*;
use serde::{Deserialize, Serialize};

use crate::gen;
use crate::keys;
use crate::mk;
use crate::model;
use crate::props::common::*;
use crate::runner::*;
use crate::spec::*;

fn openssl_revoked(crl: &openssl::x509::X509Crl, serial_magnitude: &[u8]) -> Result<bool, String> {
	use openssl::asn1::Asn1Integer;
	use openssl::bn::BigNum;
	use openssl::x509::CrlStatus;
	let bn = BigNum::from_slice(serial_magnitude).map_err(|e| e.to_string())?;
	let ai = Asn1Integer::from_bn(&bn).map_err(|e| e.to_string())?;
	Ok(match crl.get_by_serial(&ai) {
		CrlStatus::NotRevoked => false,
		CrlStatus::Revoked(_) | CrlStatus::RemoveFromCrl(_) => true,
	})
}

pub fn check_content(case: &CrlCase, info: &mut CaseInfo) -> Result<(), String> {
	info.nontrivial = case.crl.idp.is_some() || case.crl.revoked.iter().any(|r| r.reason.is_some() || r.invalidity_date.is_some());
	info.class(format!("entries:{}", case.crl.revoked.len().min(3)));
	info.class(format!("kid:{}", crate::props::c02::kid_name(&case.crl.kid)));
	info.class(format!("issuer-key:{}", case.issuer.key.label()));
	match &case.crl.idp {
		None => info.class("idp:none"),
		Some(i) => info.class(format!("idp:{:?}", i.scope)),
	}
	for r in &case.crl.revoked {
		info.class(format!("reason:{:?}", r.reason));
	}
	if case.crl.revoked.iter().any(|r| Some(&r.serial) == case.issuer.spec.serial.as_ref()) {
		info.class("entry-bears-the-issuer-certificate's-serial");
	}
	let built = build_crl(case)?.map_err(|e| format!("CRL signed_by refused a valid request: {e}"))?;
	let (c, _) = decode_crl(built.crl.der())?;
	model::check_crl(&c, &case.crl, &case.issuer.spec.dn, &keys::fixture(&case.issuer.key).spki)?;

	// independent revocation checker: revoked iff listed
	let ocrl = openssl::x509::X509Crl::from_der(built.crl.der()).map_err(|e| format!("OpenSSL cannot parse the CRL: {e}"))?;
	let listed: Vec<Vec<u8>> = case.crl.revoked.iter().map(|r| model::strip_zeros(&r.serial.0)).collect();
	for s in &listed {
		if !openssl_revoked(&ocrl, s)? {
			return Err(format!("OpenSSL reports listed serial {} as not revoked", crate::der::hex(s)));
		}
	}
	// unlisted serials derived from the listed ones (neighbours) and fixed probes
	let mut probes: Vec<Vec<u8>> = vec![vec![], vec![1], vec![0x7f], vec![0x80], vec![0xff, 0xff]];
	for s in &listed {
		let mut p = s.clone();
		p.push(0x01);
		probes.push(p);
		if let Some(last) = s.last() {
			let mut q = s.clone();
			*q.last_mut().unwrap() = last ^ 1;
			probes.push(model::strip_zeros(&q));
		}
		if s.len() > 1 {
			probes.push(model::strip_zeros(&s[1..]));
		}
	}
	for p in probes {
		if listed.contains(&p) {
			continue;
		}
		if openssl_revoked(&ocrl, &p)? {
			return Err(format!("OpenSSL reports unlisted serial {} as revoked", crate::der::hex(&p)));
		}
	}
	Ok(())
}

/// thisUpdate / nextUpdate ordering rule.
#[derive(Clone, Debug, Serialize, Deserialize, PartialEq, Eq, Hash)]
pub struct OrderCase {
	pub this_update: TimeSpec,
	pub next_update: TimeSpec,
}

pub fn check_order(case: &OrderCase, info: &mut CaseInfo) -> Result<(), String> {
	let (a, b) = (&case.this_update, &case.next_update);
	let diff_ns = (b.unix as i128 - a.unix as i128) * 1_000_000_000 + b.nanos as i128 - a.nanos as i128;
	info.nontrivial = diff_ns.abs() < 2_000_000_000;
	info.class(match diff_ns {
		d if d < 0 => "next<this",
		0 => "equal",
		d if d < 1_000_000_000 => "sub-second-later",
		_ => "later",
	});
	// what gets encoded is the instant truncated to whole seconds
	let must_refuse = b.unix <= a.unix;
	info.class(if must_refuse { "must-refuse" } else { "must-accept" });
	let crl = CrlSpec {
		this_update: *a,
		next_update: *b,
		crl_number: Hex(vec![1]),
		idp: None,
		revoked: vec![],
		kid: KidSpec::Pre(Hex(vec![1, 2, 3])),
	};
	let issuer = IssuerCase {
		spec: CertSpec::minimal(),
		key: KeySpec { alg: KeyAlg::Ed25519, idx: 0, rsa_hash: RsaHash::Sha256, remote: !cfg!(feature = "crypto") },
	};
	match build_crl(&CrlCase { crl, issuer })? {
		Ok(built) => {
			if must_refuse {
				let (c, _) = decode_crl(built.crl.der())?;
				return Err(format!(
					"a CRL was produced whose encoded nextUpdate ({}) is not later than its encoded thisUpdate ({})",
					c.next_update.map(|t| t.text).unwrap_or_default(),
					c.this_update.text
				));
			}
			let (c, _) = decode_crl(built.crl.der())?;
			let nu = c.next_update.ok_or("no nextUpdate")?;
			if nu.unix <= c.this_update.unix {
				return Err("encoded nextUpdate is not later than encoded thisUpdate".into());
			}
			Ok(())
		},
		Err(e) => {
			if must_refuse {
				Ok(())
			} else {
				Err(format!("CRL refused ({e}) although the encoded nextUpdate would be later than thisUpdate"))
			}
		},
	}
}

fn order_case() -> BoxedStrategy<OrderCase> {
	(
		gen::time_valid(),
		prop_oneof![
			3 => Just(0i64),
			2 => Just(1i64),
			2 => Just(-1i64),
			1 => -100_000i64..100_000,
			1 => 2i64..1_000_000_000,
		],
		gen::nanos(),
		gen::offset(),
	)
		.prop_map(|(a, ds, n2, off2)| {
			let unix = (a.unix + ds).clamp(gen::Y0_START, gen::Y9999_END);
			OrderCase { this_update: a, next_update: gen::clamp_time(unix, n2, off2) }
		})
		.boxed()
}

/// Issuer key-usage rule: refuse iff usages are declared and lack cRLSign.
#[derive(Clone, Debug, Serialize, Deserialize, PartialEq, Eq, Hash)]
pub struct KuCase {
	pub ku_mask: u16,
}

pub fn check_ku(case: &KuCase, info: &mut CaseInfo) -> Result<(), String> {
	let bits: Vec<u8> = (0u8..9).filter(|b| case.ku_mask & (1 << b) != 0).collect();
	let must_refuse = !bits.is_empty() && !bits.contains(&6);
	info.nontrivial = true;
	info.class(if must_refuse { "must-refuse" } else { "must-accept" });
	let mut spec = CertSpec::minimal();
	spec.key_usages = bits;
	spec.is_ca = IsCaSpec::CaUnconstrained;
	let crl = CrlSpec {
		this_update: TimeSpec { unix: 1_600_000_000, nanos: 0, offset: 0 },
		next_update: TimeSpec { unix: 1_700_000_000, nanos: 0, offset: 0 },
		crl_number: Hex(vec![1]),
		idp: None,
		revoked: vec![],
		kid: KidSpec::Pre(Hex(vec![1, 2, 3])),
	};
	let issuer = IssuerCase {
		spec,
		key: KeySpec { alg: KeyAlg::Ed25519, idx: 0, rsa_hash: RsaHash::Sha256, remote: !cfg!(feature = "crypto") },
	};
	match (build_crl(&CrlCase { crl, issuer })?, must_refuse) {
		(Ok(_), true) => Err("a CRL was produced although the issuer declares key usages that lack cRLSign".into()),
		(Err(e), false) => Err(format!("CRL refused ({e}) although the issuer may sign CRLs")),
		_ => Ok(()),
	}
}

/// webpki as a second, independent revocation checker: a leaf with a given serial, issued by the
/// CRL's issuer, is reported revoked iff that serial is listed. Restricted to what webpki's CRL
/// support documents (no issuing distribution point, positive serials of at most 20 octets,
/// verification time inside the CRL's and the certificates' windows).
#[derive(Clone, Debug, Serialize, Deserialize, PartialEq, Eq, Hash)]
pub struct WebpkiCase {
	pub case: CrlCase,
	/// probe a listed serial (by index) or a fresh unlisted one
	pub probe_listed: Option<u8>,
	pub unlisted: Hex,
	pub leaf_key: KeySpec,
}

fn webpki_case() -> BoxedStrategy<WebpkiCase> {
	(
		gen::crl_spec(true),
		proptest::collection::vec(gen::conformant_serial(), 1..5),
		validator_key(),
		gen::kid(),
		prop::option::of(any::<u8>()),
		gen::conformant_serial(),
		validator_key(),
		prop_oneof![Just(vec![]), Just(vec![6u8]), Just(vec![5u8, 6]), Just(vec![0u8, 5, 6])],
	)
		.prop_map(|(mut crl, serials, key, kid, probe_listed, unlisted, leaf_key, ku)| {
			crl.idp = None;
			crl.crl_number = Hex(vec![1, 2, 3]);
			// one entry per generated serial, keeping the generated reasons / dates where present
			let mut revoked = Vec::new();
			for (i, s) in serials.into_iter().enumerate() {
				let mut e = crl.revoked.get(i).cloned().unwrap_or(RevokedSpec {
					serial: Hex(vec![]),
					revocation_time: crl.this_update,
					reason: None,
					invalidity_date: None,
				});
				e.serial = s;
				if e.reason == Some(ReasonSpec::RemoveFromCrl) {
					e.reason = Some(ReasonSpec::Superseded);
				}
				revoked.push(e);
			}
			crl.revoked = revoked;
			let mut spec = CertSpec::minimal();
			spec.dn = DnSpec(vec![(DnTypeSpec::Org, DnValueSpec::new(StrKind::Utf8, "rv crl issuer"))]);
			spec.is_ca = IsCaSpec::CaUnconstrained;
			spec.kid = kid;
			spec.key_usages = ku;
			WebpkiCase { case: CrlCase { crl, issuer: IssuerCase { spec, key } }, probe_listed, unlisted, leaf_key }
		})
		.boxed()
}

pub fn check_webpki(w: &WebpkiCase, info: &mut CaseInfo) -> Result<(), String> {
	use pki_types::{CertificateDer, UnixTime};
	let c = &w.case;
	// verification time inside [thisUpdate, nextUpdate) and after the epoch
	let at = c.crl.this_update.unix;
	// (webpki cannot represent instants before the epoch: the certificates' notBefore is a day earlier)
	if at < 2 * 86400 || c.crl.next_update.unix <= at {
		info.class("skipped:pre-epoch-crl");
		return Ok(());
	}
	let listed: Vec<Vec<u8>> = c.crl.revoked.iter().map(|r| model::strip_zeros(&r.serial.0)).collect();
	let (serial, expect_revoked) = match w.probe_listed {
		Some(i) => (c.crl.revoked[i as usize % c.crl.revoked.len()].serial.0.clone(), true),
		None => {
			let s = w.unlisted.0.clone();
			let is_listed = listed.contains(&model::strip_zeros(&s));
			(s, is_listed)
		},
	};
	info.nontrivial = true;
	info.class(if expect_revoked { "probe:listed" } else { "probe:unlisted" });
	let built = build_crl(c)?.map_err(|e| format!("CRL signed_by refused a valid request: {e}"))?;
	let mut issuer_spec = c.issuer.spec.clone();
	let (nb, na) = window_around(at, 86400, 86400 * 400);
	issuer_spec.not_before = nb;
	issuer_spec.not_after = na;
	// the issuer certificate used as trust anchor must carry the same name and key as the CRL's issuer
	let issuer_key = keys::make_key(&c.issuer.key)?;
	let issuer_cert = mk::cert_params(&issuer_spec)?.self_signed(&issuer_key).map_err(|e| e.to_string())?;
	let mut leaf = CertSpec::minimal();
	leaf.dn = DnSpec(vec![(DnTypeSpec::CommonName, DnValueSpec::new(StrKind::Utf8, "rv revoked leaf"))]);
	leaf.serial = Some(Hex(serial.clone()));
	leaf.not_before = nb;
	leaf.not_after = na;
	leaf.kid = KidSpec::Pre(Hex(vec![1]));
	leaf.sans = vec![SanSpec::Dns("leaf.example".into())];
	let leaf_key = keys::make_key(&w.leaf_key)?;
	let leaf_cert = mk::cert_params(&leaf)?.signed_by(&leaf_key, &issuer_cert, &issuer_key).map_err(|e| e.to_string())?;

	let crl = webpki::OwnedCertRevocationList::from_der(built.crl.der()).map_err(|e| format!("webpki cannot parse the CRL: {e:?}"))?;
	let crl = webpki::CertRevocationList::from(crl);
	let crls = [&crl];
	let revocation = webpki::RevocationOptionsBuilder::new(&crls)
		.map_err(|_| "INTERNAL: no CRLs")?
		.with_depth(webpki::RevocationCheckDepth::EndEntity)
		.with_status_policy(webpki::UnknownStatusPolicy::Deny)
		.with_expiration_policy(webpki::ExpirationPolicy::Enforce)
		.build();
	let leaf_der = CertificateDer::from(leaf_cert.der().to_vec());
	let ee = webpki::EndEntityCert::try_from(&leaf_der).map_err(|e| format!("INTERNAL: webpki rejects the leaf: {e:?}"))?;
	let root_der = CertificateDer::from(issuer_cert.der().to_vec());
	let anchor = webpki::anchor_from_trusted_cert(&root_der).map_err(|e| format!("INTERNAL: anchor: {e:?}"))?;
	let anchors = [anchor];
	let r = ee.verify_for_usage(
		webpki::ALL_VERIFICATION_ALGS,
		&anchors,
		&[],
		UnixTime::since_unix_epoch(std::time::Duration::from_secs(at as u64)),
		webpki::KeyUsage::server_auth(),
		Some(revocation),
		None,
	);
	let r = r.map(|_| ());
	match (r, expect_revoked) {
		(Err(webpki::Error::CertRevoked), true) => Ok(()),
		(Ok(_), false) => Ok(()),
		(Ok(_), true) => Err(format!("webpki reports serial {} as not revoked although the CRL lists it", crate::der::hex(&serial))),
		(Err(webpki::Error::CertRevoked), false) => Err(format!("webpki reports unlisted serial {} as revoked", crate::der::hex(&serial))),
		(Err(e), _) => Err(format!("webpki cannot use the CRL for a certificate of its issuer: {e:?}")),
	}
}

pub fn def() -> PropertyDef {
	let _ = mk::KU_ALL;
	PropertyDef {
		id: "C08",
		rule: "CRL Specs (0..5 entries, all reason codes and none, invalidity dates, serials/CRL numbers with every leading-byte pattern, IDP with both scopes and none, four key-id methods, every issuer key algorithm) -> harness decoder -> reference model, plus OpenSSL X509_CRL_get0_by_serial on listed and unlisted (neighbouring) serials; refusal rules: thisUpdate/nextUpdate pairs at differences <0, 0, sub-second, 1 s, large across offsets; all 512 issuer key-usage sets. Non-trivial = entry extension or IDP present, pair within 2 s, every key-usage set.",
		assumptions: vec!["the harness decoder", "OpenSSL's CRL lookup semantics (serial equality as integers)", "webpki's CRL support (no issuing distribution point; end-entity depth)"],
		subs: vec![
			prop_sub("content", 80_000, 600_000, || {
				// an issuing distribution point may be asked for with a scope and no URI at all
				(crl_case(false, false), prop::bool::weighted(0.15), prop::bool::weighted(0.12))
					.prop_map(|(mut c, no_uris, own_serial)| {
						if let (true, Some(idp)) = (no_uris, c.crl.idp.as_mut()) {
							idp.uris.clear();
						}
						// a listed certificate may bear the number the issuer's own certificate bears (serial
						// numbers are unique per issuer, and the issuer's was given out by its parent)
						if own_serial {
							if let Some(e) = c.crl.revoked.first_mut() {
								match c.issuer.spec.serial.clone() {
									Some(s) => e.serial = s,
									None => c.issuer.spec.serial = Some(e.serial.clone()),
								}
							}
						}
						c
					})
					.boxed()
			}, check_content),
			prop_sub("order", 64_000, 400_000, order_case, check_order),
			prop_sub("webpki-revocation", 16_000, 200_000, webpki_case, check_webpki),
			sweep_sub("issuer-ku-sweep", |_| (0u16..512).map(|m| KuCase { ku_mask: m }).collect(), check_ku),
		],
	}
}
