//! Shared case types and the Spec -> artefact pipeline used by several properties.

use proptest::prelude::*;
use serde::{Deserialize, Serialize};

use crate::der::Lints;
use crate::gen;
use crate::keys;
use crate::mk;
use crate::model::IssuerInfo;
use crate::spec::*;
use crate::x509;

#[derive(Clone, Debug, Serialize, Deserialize, PartialEq, Eq, Hash)]
pub struct IssuerCase {
	pub spec: CertSpec,
	pub key: KeySpec,
}

/// How the subject public key reaches `signed_by`.
#[derive(Clone, Copy, Debug, Serialize, Deserialize, PartialEq, Eq, Hash)]
pub enum PkSource {
	KeyPair,
	ParsedSpki,
	CsrPublicKey,
}

#[derive(Clone, Debug, Serialize, Deserialize, PartialEq, Eq, Hash)]
pub struct CertCase {
	pub spec: CertSpec,
	pub key: KeySpec,
	pub pk_source: PkSource,
	/// `None`: self-signed
	pub issuer: Option<IssuerCase>,
}

/// An issuer spec: a CA with a generated name and key identifier method.
pub fn issuer_case(moderate: bool, same_oid_dn: bool, cheap: bool) -> BoxedStrategy<IssuerCase> {
	let key = if cheap { gen::cheap_key().boxed() } else { gen::key_spec().boxed() };
	(gen::dn(5, moderate, same_oid_dn), gen::kid(), key, prop::option::of(gen::key_usages(1)), gen::is_ca_any())
		.prop_map(|(dn, kid, key, ku, is_ca)| {
			let mut spec = CertSpec::minimal();
			spec.dn = dn;
			spec.kid = kid;
			spec.is_ca = is_ca;
			spec.key_usages = ku.unwrap_or_default();
			IssuerCase { spec, key }
		})
		.boxed()
}

pub fn cert_case(o: gen::CertGenOpts, cheap_keys: bool) -> BoxedStrategy<CertCase> {
	let key = if cheap_keys { gen::cheap_key().boxed() } else { gen::key_spec().boxed() };
	(
		gen::cert_spec(o),
		key,
		prop_oneof![3 => Just(PkSource::KeyPair), 1 => Just(PkSource::ParsedSpki), 1 => Just(PkSource::CsrPublicKey)],
		prop::option::weighted(0.6, issuer_case(o.moderate_oids, o.same_oid_dn, cheap_keys)),
	)
		.prop_map(|(spec, key, pk_source, issuer)| CertCase {
			spec,
			key,
			pk_source: if issuer.is_some() { pk_source } else { PkSource::KeyPair },
			issuer,
		})
		.boxed()
}

pub struct Built {
	pub cert: rcgen::Certificate,
	pub input_params: rcgen::CertificateParams,
	pub subject_key: rcgen::KeyPair,
	pub issuer_cert: Option<rcgen::Certificate>,
	pub issuer_key: Option<rcgen::KeyPair>,
	/// the public-key source actually used (CSR source falls back when the request cannot be parsed)
	pub pk_source_used: PkSource,
}

/// Runs the real API. `Err` is an unexpected refusal by rcgen.
pub fn build_cert(case: &CertCase) -> Result<Built, String> {
	let params = mk::cert_params(&case.spec)?;
	let input_params = params.clone();
	let subject_key = keys::make_key(&case.key)?;
	match &case.issuer {
		None => {
			let cert = params.self_signed(&subject_key).map_err(|e| format!("self_signed failed: {e}"))?;
			Ok(Built { cert, input_params, subject_key, issuer_cert: None, issuer_key: None, pk_source_used: PkSource::KeyPair })
		},
		Some(iss) => {
			let issuer_key = keys::make_key(&iss.key)?;
			let issuer_params = mk::cert_params(&iss.spec)?;
			let issuer_cert = issuer_params.self_signed(&issuer_key).map_err(|e| format!("issuer self_signed failed: {e}"))?;
			let mut used = case.pk_source;
			let cert = match case.pk_source {
				PkSource::KeyPair => params.signed_by(&subject_key, &issuer_cert, &issuer_key),
				PkSource::ParsedSpki => {
					let spki = rcgen::SubjectPublicKeyInfo::from_der(&subject_key.public_key_der())
						.map_err(|e| format!("SubjectPublicKeyInfo::from_der rejected an exported key: {e}"))?;
					params.signed_by(&spki, &issuer_cert, &issuer_key)
				},
				PkSource::CsrPublicKey => {
					let csr = rcgen::CertificateParams::default()
						.serialize_request(&subject_key)
						.map_err(|e| format!("serialize_request failed: {e}"))?;
					match rcgen::CertificateSigningRequestParams::from_der(csr.der()) {
						Ok(p) => params.signed_by(&p.public_key, &issuer_cert, &issuer_key),
						Err(_) => {
							// the parser's algorithm support is C07's subject, not this property's
							used = PkSource::KeyPair;
							params.signed_by(&subject_key, &issuer_cert, &issuer_key)
						},
					}
				},
			}
			.map_err(|e| format!("signed_by failed: {e}"))?;
			Ok(Built { cert, input_params, subject_key, issuer_cert: Some(issuer_cert), issuer_key: Some(issuer_key), pk_source_used: used })
		},
	}
}

pub fn issuer_info(case: &CertCase) -> IssuerInfo<'_> {
	match &case.issuer {
		None => IssuerInfo { dn: &case.spec.dn, kid: &case.spec.kid, spki: &keys::fixture(&case.key).spki },
		Some(i) => IssuerInfo { dn: &i.spec.dn, kid: &i.spec.kid, spki: &keys::fixture(&i.key).spki },
	}
}

pub fn signer_key(case: &CertCase) -> KeySpec {
	match &case.issuer {
		None => case.key,
		Some(i) => i.key,
	}
}

pub fn decode_cert(der: &[u8]) -> Result<(x509::Cert, Vec<String>), String> {
	let l = Lints::new();
	let c = x509::parse_cert(der, &l).map_err(|e| format!("independent decoder rejects the certificate: {e}"))?;
	Ok((c, l.take()))
}
