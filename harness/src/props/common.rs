//! Shared case types and the Spec -> artefact pipeline used by several properties.

use proptest::prelude::*;
use serde::{Deserialize, Serialize};

use crate::der::Lints;
use crate::gen;
use crate::keys;
use crate::mk;
use crate::model::IssuerInfo;
use crate::spec::*;
use crate::x509;

#[derive(Clone, Debug, Serialize, Deserialize, PartialEq, Eq, Hash)]
pub struct IssuerCase {
	pub spec: CertSpec,
	pub key: KeySpec,
}

/// How the subject public key reaches `signed_by`.
#[derive(Clone, Copy, Debug, Serialize, Deserialize, PartialEq, Eq, Hash)]
pub enum PkSource {
	KeyPair,
	ParsedSpki,
	CsrPublicKey,
	/// the whole issuance goes through `CertificateSigningRequestParams::signed_by`: a request is
	/// generated and parsed, the parsed object's `params` are replaced by the full parameters
	CsrSignedBy,
}

#[derive(Clone, Debug, Serialize, Deserialize, PartialEq, Eq, Hash)]
pub struct CertCase {
	pub spec: CertSpec,
	pub key: KeySpec,
	pub pk_source: PkSource,
	/// `None`: self-signed
	pub issuer: Option<IssuerCase>,
}

/// An issuer spec: a CA with a generated name and key identifier method.
pub fn issuer_case(moderate: bool, same_oid_dn: bool, cheap: bool) -> BoxedStrategy<IssuerCase> {
	let key = if cheap { gen::cheap_key().boxed() } else { gen::key_spec().boxed() };
	(gen::dn(5, moderate, same_oid_dn), gen::kid(), key, prop::option::of(gen::key_usages(1)), gen::is_ca_any(), prop::option::weighted(0.4, gen::conformant_serial()))
		.prop_map(|(dn, kid, key, ku, is_ca, serial)| {
			let mut spec = CertSpec::minimal();
			// an issuer certificate numbered by whoever issued it, or numbered automatically
			if serial.is_some() {
				spec.serial = serial;
			}
			spec.dn = dn;
			spec.kid = kid;
			spec.is_ca = is_ca;
			spec.key_usages = ku.unwrap_or_default();
			IssuerCase { spec, key }
		})
		.boxed()
}

pub fn cert_case(o: gen::CertGenOpts, cheap_keys: bool) -> BoxedStrategy<CertCase> {
	let key = if cheap_keys { gen::cheap_key().boxed() } else { gen::key_spec().boxed() };
	(
		gen::cert_spec(o),
		key,
		prop_oneof![3 => Just(PkSource::KeyPair), 1 => Just(PkSource::ParsedSpki), 1 => Just(PkSource::CsrPublicKey), 1 => Just(PkSource::CsrSignedBy)],
		prop::option::weighted(0.6, issuer_case(o.moderate_oids, o.same_oid_dn, cheap_keys)),
	)
		.prop_map(|(spec, key, pk_source, issuer)| CertCase {
			spec,
			key,
			pk_source: if issuer.is_some() { pk_source } else { PkSource::KeyPair },
			issuer,
		})
		.boxed()
}

pub struct Built {
	pub cert: rcgen::Certificate,
	pub input_params: rcgen::CertificateParams,
	pub subject_key: rcgen::KeyPair,
	pub issuer_cert: Option<rcgen::Certificate>,
	pub issuer_key: Option<rcgen::KeyPair>,
	/// the public-key source actually used (CSR source falls back when the request cannot be parsed)
	pub pk_source_used: PkSource,
}

/// Runs the real API. `Err` is an unexpected refusal by rcgen.
pub fn build_cert(case: &CertCase) -> Result<Built, String> {
	let params = mk::cert_params(&case.spec)?;
	let input_params = params.clone();
	let subject_key = keys::make_key(&case.key)?;
	match &case.issuer {
		None => {
			let cert = params.self_signed(&subject_key).map_err(|e| format!("self_signed failed: {e}"))?;
			Ok(Built { cert, input_params, subject_key, issuer_cert: None, issuer_key: None, pk_source_used: PkSource::KeyPair })
		},
		Some(iss) => {
			let issuer_key = keys::make_key(&iss.key)?;
			let issuer_params = mk::cert_params(&iss.spec)?;
			let issuer_cert = issuer_params.self_signed(&issuer_key).map_err(|e| format!("issuer self_signed failed: {e}"))?;
			let mut used = case.pk_source;
			let cert = match case.pk_source {
				PkSource::KeyPair => params.signed_by(&subject_key, &issuer_cert, &issuer_key),
				PkSource::ParsedSpki => {
					let spki = rcgen::SubjectPublicKeyInfo::from_der(&subject_key.public_key_der())
						.map_err(|e| format!("SubjectPublicKeyInfo::from_der rejected an exported key: {e}"))?;
					params.signed_by(&spki, &issuer_cert, &issuer_key)
				},
				PkSource::CsrSignedBy => {
					let csr = rcgen::CertificateParams::default()
						.serialize_request(&subject_key)
						.map_err(|e| format!("serialize_request failed: {e}"))?;
					match rcgen::CertificateSigningRequestParams::from_der(csr.der()) {
						Ok(mut p) => {
							p.params = params;
							p.signed_by(&issuer_cert, &issuer_key)
						},
						Err(_) => {
							used = PkSource::KeyPair;
							params.signed_by(&subject_key, &issuer_cert, &issuer_key)
						},
					}
				},
				PkSource::CsrPublicKey => {
					let csr = rcgen::CertificateParams::default()
						.serialize_request(&subject_key)
						.map_err(|e| format!("serialize_request failed: {e}"))?;
					match rcgen::CertificateSigningRequestParams::from_der(csr.der()) {
						Ok(p) => params.signed_by(&p.public_key, &issuer_cert, &issuer_key),
						Err(_) => {
							// the parser's algorithm support is C07's subject, not this property's
							used = PkSource::KeyPair;
							params.signed_by(&subject_key, &issuer_cert, &issuer_key)
						},
					}
				},
			}
			.map_err(|e| format!("signed_by failed: {e}"))?;
			Ok(Built { cert, input_params, subject_key, issuer_cert: Some(issuer_cert), issuer_key: Some(issuer_key), pk_source_used: used })
		},
	}
}

pub fn issuer_info(case: &CertCase) -> IssuerInfo<'_> {
	match &case.issuer {
		None => IssuerInfo { dn: &case.spec.dn, kid: &case.spec.kid, spki: &keys::fixture(&case.key).spki },
		Some(i) => IssuerInfo { dn: &i.spec.dn, kid: &i.spec.kid, spki: &keys::fixture(&i.key).spki },
	}
}

pub fn signer_key(case: &CertCase) -> KeySpec {
	match &case.issuer {
		None => case.key,
		Some(i) => i.key,
	}
}

pub fn decode_cert(der: &[u8]) -> Result<(x509::Cert, Vec<String>), String> {
	let l = Lints::new();
	let c = x509::parse_cert(der, &l).map_err(|e| format!("independent decoder rejects the certificate: {e}"))?;
	Ok((c, l.take()))
}

// ---------------------------------------------------------------------------------------------
// CSR and CRL cases

#[derive(Clone, Debug, Serialize, Deserialize, PartialEq, Eq, Hash)]
pub struct CsrCase {
	pub spec: CertSpec,
	pub key: KeySpec,
	pub attrs: Vec<AttrSpec>,
}

pub fn csr_case(cheap_keys: bool) -> BoxedStrategy<CsrCase> {
	let key = if cheap_keys { gen::cheap_key().boxed() } else { gen::key_spec().boxed() };
	(gen::csr_spec(false, false, true), key, proptest::collection::vec(gen::attr_spec(), 0..5))
		.prop_map(|(spec, key, attrs)| CsrCase { spec, key, attrs })
		.boxed()
}

pub fn build_csr(case: &CsrCase) -> Result<(rcgen::CertificateSigningRequest, rcgen::KeyPair), String> {
	let params = mk::cert_params(&case.spec)?;
	let key = keys::make_key(&case.key)?;
	let attrs: Vec<rcgen::Attribute> = case.attrs.iter().map(mk::attribute).collect();
	let csr = if attrs.is_empty() {
		params.serialize_request(&key)
	} else {
		params.serialize_request_with_attributes(&key, attrs)
	}
	.map_err(|e| format!("serialize_request failed: {e}"))?;
	Ok((csr, key))
}

pub fn csr_attr_pairs(case: &CsrCase) -> Vec<(Vec<u64>, Vec<u8>)> {
	case.attrs
		.iter()
		.map(|a| (mk::ATTR_OIDS[a.oid_idx as usize % mk::ATTR_OIDS.len()].to_vec(), a.values.0.clone()))
		.collect()
}

pub fn decode_csr(der: &[u8]) -> Result<(x509::Csr, Vec<String>), String> {
	let l = Lints::new();
	let c = x509::parse_csr(der, &l).map_err(|e| format!("independent decoder rejects the CSR: {e}"))?;
	Ok((c, l.take()))
}

#[derive(Clone, Debug, Serialize, Deserialize, PartialEq, Eq, Hash)]
pub struct CrlCase {
	pub crl: CrlSpec,
	pub issuer: IssuerCase,
}

/// CRL cases rcgen must accept: issuer key usages empty or including cRLSign.
pub fn crl_case(plain_times: bool, cheap_keys: bool) -> BoxedStrategy<CrlCase> {
	(gen::crl_spec(plain_times), issuer_case(false, true, cheap_keys))
		.prop_map(|(crl, mut issuer)| {
			if !issuer.spec.key_usages.is_empty() && !issuer.spec.key_usages.contains(&6) {
				issuer.spec.key_usages.push(6);
			}
			CrlCase { crl, issuer }
		})
		.boxed()
}

pub struct BuiltCrl {
	pub crl: rcgen::CertificateRevocationList,
	pub issuer_cert: rcgen::Certificate,
	pub issuer_key: rcgen::KeyPair,
}

pub fn build_crl(case: &CrlCase) -> Result<Result<BuiltCrl, rcgen::Error>, String> {
	let issuer_key = keys::make_key(&case.issuer.key)?;
	let issuer_cert = mk::cert_params(&case.issuer.spec)?
		.self_signed(&issuer_key)
		.map_err(|e| format!("issuer self_signed failed: {e}"))?;
	let params = mk::crl_params(&case.crl)?;
	Ok(match params.signed_by(&issuer_cert, &issuer_key) {
		Ok(crl) => Ok(BuiltCrl { crl, issuer_cert, issuer_key }),
		Err(e) => Err(e),
	})
}

pub fn decode_crl(der: &[u8]) -> Result<(x509::Crl, Vec<String>), String> {
	let l = Lints::new();
	let c = x509::parse_crl(der, &l).map_err(|e| format!("independent decoder rejects the CRL: {e}"))?;
	Ok((c, l.take()))
}

/// Signature check shared by C01 and others: `sig` over exactly `signed` under `signer`'s
/// public key (OpenSSL's own SPKI encoding of the fixture key), digest per the signer's algorithm.
pub fn verify_sig(signer: &KeySpec, signed: &[u8], sig: &[u8]) -> Result<(), String> {
	let fx = keys::fixture(signer);
	match keys::openssl_verify(&fx.spki, keys::digest_of(signer), signed, sig)? {
		true => Ok(()),
		false => Err(format!("OpenSSL rejects the signature under the signer's public key ({})", signer.label())),
	}
}

// ---------------------------------------------------------------------------------------------
// Validator-friendly shapes (C03, C12, C18): inside what OpenSSL and webpki document.

/// A verification instant (after the epoch, before 2100) and validity windows around it.
pub fn window_around(at: i64, before: i64, after: i64) -> (TimeSpec, TimeSpec) {
	(
		TimeSpec { unix: at - before, nanos: 0, offset: 0 },
		TimeSpec { unix: at + after, nanos: 0, offset: 0 },
	)
}

pub fn hostname_strategy() -> BoxedStrategy<String> {
	proptest::collection::vec("[a-z][a-z0-9]{0,7}", 2..4).prop_map(|v| v.join(".")).boxed()
}

/// Leaf parameters every validator involved accepts when the chain is sound: end entity,
/// sane SANs, EKU empty or including serverAuth, non-critical custom extensions.
pub fn leaf_spec(at: i64) -> BoxedStrategy<CertSpec> {
	(
		gen::dn(4, true, false),
		proptest::collection::vec(
			prop_oneof![hostname_strategy().prop_map(SanSpec::Dns), gen::ip_bytes().prop_map(SanSpec::Ip), hostname_strategy().prop_map(|h| SanSpec::Rfc822(format!("u@{h}")))],
			1..4,
		),
		prop_oneof![Just(vec![]), Just(vec![EkuSpec::ServerAuth]), Just(vec![EkuSpec::ClientAuth, EkuSpec::ServerAuth]), Just(vec![EkuSpec::ServerAuth, EkuSpec::CodeSigning])],
		prop_oneof![Just(vec![]), Just(vec![0u8]), Just(vec![0u8, 2])],
		gen::kid(),
		any::<bool>(),
		(1i64..400 * 86400, 1i64..4000 * 86400),
		prop::option::of(gen::conformant_serial()),
		prop_oneof![Just(IsCaSpec::NoCa), Just(IsCaSpec::ExplicitNoCa)],
		proptest::collection::vec(gen::custom_ext(true), 0..2),
	)
		.prop_map(move |(dn, sans, ekus, ku, kid, use_aki, (b, a), serial, is_ca, custom)| {
			let (not_before, not_after) = window_around(at, b, a);
			let mut s = CertSpec::minimal();
			s.dn = dn;
			s.sans = sans;
			s.ekus = ekus;
			s.key_usages = ku;
			s.kid = kid;
			s.use_aki = use_aki;
			s.not_before = not_before;
			s.not_after = not_after;
			s.serial = serial;
			s.is_ca = is_ca;
			s.custom_exts = custom.into_iter().map(|mut c| { c.critical = false; c }).filter(|c| !c.acme).collect();
			s
		})
		.boxed()
}

/// Keys both validators can verify signatures of (webpki has no P-521).
pub fn validator_key() -> BoxedStrategy<KeySpec> {
	(
		prop_oneof![4 => Just(KeyAlg::P256), 3 => Just(KeyAlg::P384), 4 => Just(KeyAlg::Ed25519), 1 => Just(KeyAlg::Rsa2048)],
		any::<u8>(),
		gen::rsa_hash(),
		prop::bool::weighted(0.1),
	)
		.prop_map(|(alg, idx, rsa_hash, remote)| KeySpec { alg, idx, rsa_hash, remote: remote || !cfg!(feature = "crypto") })
		.boxed()
}
