//! C20 — a distinguished name is an insertion-ordered map under any edit history.

use proptest::prelude::*;
use serde::{Deserialize, Serialize};

use crate::gen;
use crate::mk;
use crate::model;
use crate::props::common::*;
use crate::runner::*;
use crate::spec::*;

#[derive(Clone, Debug, Serialize, Deserialize, PartialEq, Eq, Hash)]
pub enum DnOp {
	Push(u8, DnValueSpec),
	Remove(u8),
	/// encode the name as it stands (in a CSR through a reference, or in a certificate made from a
	/// clone) and go on editing the same object afterwards
	Encode(bool),
	/// write the name into a certificate, import that certificate and go on editing the imported
	/// name object (which must enumerate like the model; if import itself changes the name that is
	/// another property's subject and the history ends there)
	Reimport,
}

#[derive(Clone, Debug, Serialize, Deserialize, PartialEq, Eq, Hash)]
pub struct History {
	/// small alphabet (3 types) or large (12 types)
	pub small: bool,
	pub ops: Vec<DnOp>,
	/// a second history to compare with (equality relation)
	pub other: Vec<DnOp>,
}

fn types(small: bool) -> Vec<DnTypeSpec> {
	if small {
		vec![DnTypeSpec::CommonName, DnTypeSpec::Custom(vec![1, 2, 3, 4]), DnTypeSpec::Custom(vec![2, 5, 4, 3])]
	} else {
		vec![
			DnTypeSpec::Country,
			DnTypeSpec::Locality,
			DnTypeSpec::State,
			DnTypeSpec::Org,
			DnTypeSpec::OrgUnit,
			DnTypeSpec::CommonName,
			DnTypeSpec::Custom(vec![1, 2, 3, 4]),
			DnTypeSpec::Custom(vec![2, 5, 4, 3]),
			DnTypeSpec::Custom(vec![2, 5, 4, 10]),
			DnTypeSpec::Custom(vec![0, 9, 2342, 19200300, 100, 1, 25]),
			DnTypeSpec::Custom(vec![1, 2, 840, 113549, 1, 9, 1]),
			DnTypeSpec::Custom(vec![2, 999, 18446744073709551000]),
			// enough further types for names of more than 16 attributes
			DnTypeSpec::Custom(vec![2, 5, 4, 0]),
			DnTypeSpec::Custom(vec![1, 0, 8571, 2, 1]),
			DnTypeSpec::Custom(vec![2, 5, 4, 9]),
			DnTypeSpec::Custom(vec![2, 5, 4, 12]),
			DnTypeSpec::Custom(vec![2, 5, 4, 17]),
			DnTypeSpec::Custom(vec![2, 5, 4, 42]),
			DnTypeSpec::Custom(vec![2, 5, 4, 43]),
			DnTypeSpec::Custom(vec![2, 5, 4, 46]),
			DnTypeSpec::Custom(vec![2, 5, 4, 65]),
			DnTypeSpec::Custom(vec![1, 3, 6, 1, 4, 1, 311, 60, 2, 1, 3]),
			DnTypeSpec::Custom(vec![1, 3, 6, 1, 4, 1, 55555, 1]),
			// zero arcs inside the identifier
			DnTypeSpec::Custom(vec![1, 3, 6, 1, 4, 1, 55555, 0, 2]),
		]
	}
}

type Model = Vec<(DnTypeSpec, DnValueSpec)>;

fn observe(dn: &rcgen::DistinguishedName, model: &Model, alphabet: &[DnTypeSpec], step: usize) -> Result<(), String> {
	let got: Vec<(rcgen::DnType, rcgen::DnValue)> = dn.iter().map(|(t, v)| (t.clone(), v.clone())).collect();
	let want: Vec<(rcgen::DnType, rcgen::DnValue)> = model
		.iter()
		.map(|(t, v)| (mk::dn_type(t), mk::dn_value(v).expect("generated values are valid")))
		.collect();
	if got != want {
		return Err(format!("after step {step}: iter() yields {:?}, model holds {:?}", got, want));
	}
	for (i, (t, _)) in got.iter().enumerate() {
		if got[..i].iter().any(|(t2, _)| t2 == t) {
			return Err(format!("after step {step}: type {:?} enumerated twice", t));
		}
	}
	for t in alphabet {
		let want = model.iter().find(|(t2, _)| t2 == t).map(|(_, v)| mk::dn_value(v).unwrap());
		let got = dn.get(&mk::dn_type(t)).cloned();
		if got != want {
			return Err(format!("after step {step}: get({:?}) = {:?}, enumeration says {:?}", t, got, want));
		}
	}
	Ok(())
}

fn encode_key() -> Result<rcgen::KeyPair, String> {
	crate::keys::make_key(&KeySpec { alg: KeyAlg::Ed25519, idx: 5, rsa_hash: RsaHash::Sha256, remote: !cfg!(feature = "crypto") })
}

fn interpret(ops: &[DnOp], alphabet: &[DnTypeSpec], check: bool) -> Result<(rcgen::DistinguishedName, Model, bool), String> {
	// the name lives inside the parameters it is encoded from, as it does in a caller's program
	let mut params = rcgen::CertificateParams::default();
	params.distinguished_name = rcgen::DistinguishedName::new();
	params.key_identifier_method = rcgen::KeyIdMethod::PreSpecified(vec![1]);
	let mut model: Model = Vec::new();
	let mut interesting = false;
	let mut removed: Vec<DnTypeSpec> = Vec::new();
	let mut encoded_before = false;
	for (step, op) in ops.iter().enumerate() {
		let dn = &mut params.distinguished_name;
		match op {
			DnOp::Reimport => {
				let key = encode_key()?;
				let cert = params.clone().self_signed(&key).map_err(|e| format!("step {step}: self_signed failed: {e}"))?;
				match rcgen::CertificateParams::from_ca_cert_der(cert.der()) {
					Ok(p) => {
						let got: Vec<(rcgen::DnType, rcgen::DnValue)> = p.distinguished_name.iter().map(|(t, v)| (t.clone(), v.clone())).collect();
						let want: Vec<(rcgen::DnType, rcgen::DnValue)> = model.iter().map(|(t, v)| (mk::dn_type(t), mk::dn_value(v).expect("valid"))).collect();
						if got != want {
							// import changed or re-typed something: C17's subject
							return Ok((params.distinguished_name, model, interesting));
						}
						params.distinguished_name = p.distinguished_name;
						interesting = true;
					},
					Err(_) => {},
				}
				continue;
			},
			DnOp::Encode(as_csr) => {
				if !check {
					continue;
				}
				let key = encode_key()?;
				if *as_csr {
					let csr = params.serialize_request(&key).map_err(|e| format!("step {step}: serialize_request failed: {e}"))?;
					let (c, _) = decode_csr(csr.der())?;
					model::name_matches(&c.subject, &model, &format!("step {step}: subject encoded in a CSR"))?;
				} else {
					let cert = params.clone().self_signed(&key).map_err(|e| format!("step {step}: self_signed failed: {e}"))?;
					let (c, _) = decode_cert(cert.der())?;
					model::name_matches(&c.subject, &model, &format!("step {step}: subject encoded in a certificate"))?;
					model::name_matches(&c.issuer, &model, &format!("step {step}: issuer encoded in a certificate"))?;
				}
				if encoded_before {
					interesting = true; // encoded, edited or not, encoded again
				}
				encoded_before = true;
				continue;
			},
			DnOp::Push(ti, v) => {
				let t = &alphabet[*ti as usize % alphabet.len()];
				// a value the constructor refuses cannot be pushed by any caller: the operation is a no-op
				// (whether the constructor is right to refuse is C13's subject, not this property's)
				let val = match mk::dn_value(v) {
					Ok(val) => val,
					Err(_) => continue,
				};
				dn.push(mk::dn_type(t), val);
				if let Some(e) = model.iter_mut().find(|(t2, _)| t2 == t) {
					e.1 = v.clone();
					interesting = true; // replace
				} else {
					if removed.contains(t) {
						interesting = true; // re-push after remove
					}
					model.push((t.clone(), v.clone()));
				}
			},
			DnOp::Remove(ti) => {
				let t = &alphabet[*ti as usize % alphabet.len()];
				let had = model.iter().any(|(t2, _)| t2 == t);
				model.retain(|(t2, _)| t2 != t);
				let r = dn.remove(mk::dn_type(t));
				if check && r != had {
					return Err(format!("step {step}: remove({:?}) returned {r}, but the name {} the type", t, if had { "held" } else { "did not hold" }));
				}
				if had {
					removed.push(t.clone());
				}
			},
		}
		if check {
			observe(&params.distinguished_name, &model, alphabet, step)?;
		}
	}
	Ok((params.distinguished_name, model, interesting))
}

pub fn check_history(h: &History, info: &mut CaseInfo) -> Result<(), String> {
	let alphabet = types(h.small);
	let (dn, model, interesting) = interpret(&h.ops, &alphabet, true)?;
	info.nontrivial = interesting;
	info.class(format!("len:{}", match h.ops.len() { 0..=2 => "0-2", 3..=6 => "3-6", 7..=20 => "7-20", _ => ">20" }));
	if interesting {
		info.class("replace-or-repush");
	}
	// equality: two names are == iff their enumerations are equal
	let (dn2, model2, _) = interpret(&h.other, &alphabet, false)?;
	if (dn == dn2) != (model == model2) {
		return Err(format!(
			"equality disagrees with enumeration: names are {} but enumerations are {} ({:?} vs {:?})",
			if dn == dn2 { "==" } else { "!=" },
			if model == model2 { "equal" } else { "different" },
			model,
			model2
		));
	}
	info.class(if model == model2 { "pair:equal" } else { "pair:different" });
	// a name rebuilt from scratch from the enumeration is equal; so is a clone
	let mut rebuilt = rcgen::DistinguishedName::new();
	for (t, v) in &model {
		rebuilt.push(mk::dn_type(t), mk::dn_value(v).unwrap());
	}
	if rebuilt != dn {
		return Err(format!("a name rebuilt from the enumeration {:?} is != the edited name", model));
	}
	if dn.clone() != dn {
		return Err("clone is not equal".into());
	}
	// encoded order (every random case; a hash-selected 1/32 of the exhaustive ones)
	let sample = !h.small || crate::runner::hash_json(&serde_json::to_value(h).unwrap()) % 32 == 0;
	if sample {
		info.class("encoded");
		let mut params = rcgen::CertificateParams::default();
		params.distinguished_name = dn;
		// as a CA certificate every other time (an empty name included)
		if h.ops.len() % 2 == 0 {
			params.is_ca = rcgen::IsCa::Ca(rcgen::BasicConstraints::Unconstrained);
		}
		let key = encode_key()?;
		params.key_identifier_method = rcgen::KeyIdMethod::PreSpecified(vec![1]);
		let cert = params.self_signed(&key).map_err(|e| format!("self_signed failed: {e}"))?;
		let (c, _) = decode_cert(cert.der())?;
		model::name_matches(&c.subject, &model, "encoded subject")?;
		model::name_matches(&c.issuer, &model, "encoded issuer")?;
		// the same name as the subject of a certificate issued under another name by the same key,
		// and as the issuer of a certificate for another name
		let other: Model = vec![(DnTypeSpec::Org, DnValueSpec::new(StrKind::Utf8, "another name")), (DnTypeSpec::CommonName, DnValueSpec::new(StrKind::Printable, "x"))];
		let mut ip = rcgen::CertificateParams::default();
		ip.distinguished_name = rcgen::DistinguishedName::new();
		for (t, v) in &other {
			ip.distinguished_name.push(mk::dn_type(t), mk::dn_value(v).unwrap());
		}
		ip.is_ca = rcgen::IsCa::Ca(rcgen::BasicConstraints::Unconstrained);
		ip.key_identifier_method = rcgen::KeyIdMethod::PreSpecified(vec![2]);
		let issuer_cert = ip.self_signed(&key).map_err(|e| format!("self_signed failed: {e}"))?;
		let issued = cert.params().clone().signed_by(&key, &issuer_cert, &key).map_err(|e| format!("signed_by failed: {e}"))?;
		let (c2, _) = decode_cert(issued.der())?;
		model::name_matches(&c2.subject, &model, "encoded subject (issued under another name by the same key)")?;
		model::name_matches(&c2.issuer, &other, "encoded issuer (another name, same key)")?;
		let back = issuer_cert.params().clone().signed_by(&key, &cert, &key).map_err(|e| format!("signed_by failed: {e}"))?;
		let (c3, _) = decode_cert(back.der())?;
		model::name_matches(&c3.issuer, &model, "encoded issuer (of a certificate for another name)")?;
		model::name_matches(&c3.subject, &other, "encoded subject (another name)")?;
	}
	Ok(())
}

fn small_ops() -> Vec<DnOp> {
	let vals = [DnValueSpec::new(StrKind::Utf8, "a"), DnValueSpec::new(StrKind::Printable, "b")];
	let mut ops = Vec::new();
	for t in 0..3u8 {
		for v in &vals {
			ops.push(DnOp::Push(t, v.clone()));
		}
		ops.push(DnOp::Remove(t));
	}
	ops.push(DnOp::Encode(true));
	ops
}

/// All operation sequences up to length 5 (quick) / 6 (thorough) over 10 operations.
fn exhaustive(cfg: &RunCfg) -> Vec<History> {
	let ops = small_ops();
	let max = if cfg.tier == Tier::Thorough { 6 } else { 5 };
	let mut all: Vec<Vec<DnOp>> = vec![vec![]];
	let mut frontier: Vec<Vec<DnOp>> = vec![vec![]];
	for _ in 0..max {
		let mut next = Vec::with_capacity(frontier.len() * ops.len());
		for s in &frontier {
			for o in &ops {
				let mut n = s.clone();
				n.push(o.clone());
				next.push(n);
			}
		}
		all.extend(next.iter().cloned());
		frontier = next;
	}
	// each sequence is compared (==) with its predecessor in enumeration order and the one 9 back
	let n = all.len();
	(0..n)
		.map(|i| History { small: true, ops: all[i].clone(), other: all[if i % 2 == 0 { i.saturating_sub(1) } else { i.saturating_sub(10) }].clone() })
		.collect()
}

fn op(n_types: u8) -> impl Strategy<Value = DnOp> {
	prop_oneof![
		6 => (0..n_types, gen::dn_value()).prop_map(|(t, v)| DnOp::Push(t, v)),
		4 => (0..n_types).prop_map(DnOp::Remove),
		1 => any::<bool>().prop_map(DnOp::Encode),
		1 => Just(DnOp::Reimport),
	]
}

/// The same history with every pushed text varied in a way a case- or whitespace-insensitive
/// comparison would not see (the kinds stay, the texts stay inside their alphabets).
fn vary_values(ops: &[DnOp], how: u8) -> Vec<DnOp> {
	ops.iter()
		.map(|o| match o {
			DnOp::Push(t, v) if !v.attempt => {
				let text = match how % 4 {
					0 => v.text.to_ascii_uppercase(),
					1 => v.text.to_ascii_lowercase(),
					2 => format!(" {}", v.text),
					_ => v.text.replace(' ', "  ") + " ",
				};
				if text.chars().all(|c| v.kind.admits(c)) {
					DnOp::Push(*t, DnValueSpec::new(v.kind, text))
				} else {
					o.clone()
				}
			},
			other => other.clone(),
		})
		.collect()
}

/// push / remove only (and a rare encode): for long runs on one and the same name object
fn edit_op(n_types: u8) -> impl Strategy<Value = DnOp> {
	prop_oneof![
		10 => (0..n_types, gen::dn_value()).prop_map(|(t, v)| DnOp::Push(t, v)),
		9 => (0..n_types).prop_map(DnOp::Remove),
		1 => any::<bool>().prop_map(DnOp::Encode),
	]
}

fn random_history() -> BoxedStrategy<History> {
	(prop_oneof![3 => proptest::collection::vec(op(12), 0..60), 1 => proptest::collection::vec(op(24), 20..90)], proptest::collection::vec(op(12), 0..8), any::<u8>())
		.prop_map(|(ops, tail, mode)| {
			// the second history: identical, a permuted prefix, or a variation with a different tail
			let other = match mode % 6 {
				0 => ops.clone(),
				4 | 5 => vary_values(&ops, mode / 6),
				1 => {
					let mut o = ops.clone();
					o.extend(tail);
					o
				},
				2 => {
					let mut o = ops.clone();
					o.reverse();
					o
				},
				_ => tail,
			};
			History { small: false, ops, other }
		})
		.boxed()
}

/// Histories concentrated on few types so that remove / re-push / replace happen often.
fn dense_history() -> BoxedStrategy<History> {
	// mostly short; one in forty runs to a thousand operations over a handful of types, so that
	// well over a hundred removals happen on one object
	(prop_oneof![39 => proptest::collection::vec(op(3), 0..24), 1 => proptest::collection::vec(edit_op(5), 900..1300)], any::<u8>())
		.prop_map(|(ops, mode)| {
			let other = match mode % 3 {
				0 => ops.iter().rev().cloned().collect(),
				1 => ops[..ops.len() / 2].to_vec(),
				_ => vary_values(&ops, mode / 3),
			};
			History { small: mode % 5 == 0, ops, other }
		})
		.boxed()
}

pub fn def() -> PropertyDef {
	PropertyDef {
		id: "C20",
		rule: "Operation sequences push(type, value) / remove(type) / encode (the name, which lives inside the CertificateParams it is encoded from, is written into a CSR through a reference or into a certificate from a clone, the decoded subject must be the model at that step, and editing goes on afterwards) interpreted against DistinguishedName and against a Vec<(type, value)> model, observed after every step (iter, get for every type of the alphabet, remove's return value, no duplicates), plus the equality relation against a second history (identical, extended, reversed, unrelated, or the same history with every text changed only in letter case or white space), a rebuilt name and a clone, plus the encoded order in a certificate. Bounded-exhaustive: every sequence up to length 5 (quick; 111 111) / 6 (thorough; 1 111 111) over 10 operations (3 types incl. a custom OID equal to a standard one x 2 values + 3 removes + encode); random: length <= 60 over 12 types (a quarter: 20..90 operations over 24 types, so that names of more than 16 attributes occur and shrink again; custom types with zero arcs among them) and all six value kinds; dense: up to 24 operations over 3 types, one in forty 900..1300 operations over 5 types (hundreds of effective removals on one object); the final name is also encoded as subject and as issuer of certificates issued under / for another name by the same key. Random and dense histories also contain re-import steps (the name is written into a certificate, the certificate imported, and editing continues on the imported name object). Non-trivial = the history contains a replace, a push of a previously removed type, a second encode, or a re-import.",
		assumptions: vec!["the Vec model is the specification (insertion order since last absence, latest value)"],
		subs: vec![
			sweep_sub("exhaustive", exhaustive, check_history),
			prop_sub("random", 24_000, 400_000, random_history, check_history),
			prop_sub("dense", 24_000, 400_000, dense_history, check_history),
		],
	}
}
