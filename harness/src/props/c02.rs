//! C02 — a certificate says exactly what its parameters say.

use crate::gen::{self, CertGenOpts};
use crate::keys;
use crate::model;
use crate::props::common::*;
use crate::runner::*;
use crate::spec::*;

pub fn check_case(case: &CertCase, info: &mut CaseInfo) -> Result<(), String> {
	let fields = case.spec.ext_fields_set();
	info.nontrivial = !fields.is_empty();
	info.class(format!("sparsity:{}", gen::sparsity_class(&case.spec)));
	if fields.len() == 1 {
		info.class(format!("only:{}", fields[0]));
	}
	info.class(format!("key:{}", case.key.label()));
	info.class(if case.issuer.is_some() { "issuer-signed" } else { "self-signed" });
	info.class(format!("kid:{}", kid_name(&case.spec.kid)));

	let built = build_cert(case)?;
	info.class(format!("pk-source:{:?}", built.pk_source_used));
	let (c, _lints) = decode_cert(built.cert.der())?;
	let subject_spki = &keys::fixture(&case.key).spki;
	let issuer = issuer_info(case);
	model::check_cert(&c, &case.spec, subject_spki, &issuer)?;

	// The returned Certificate value reports the same parameters ...
	if built.cert.params() != &built.input_params {
		return Err("Certificate::params() differs from the parameters that were passed in".into());
	}
	// ... and the same key identifier as its DER.
	let want_kid = model::key_id(&case.spec.kid, subject_spki);
	let reported = built.cert.key_identifier();
	if reported != want_kid {
		return Err(format!(
			"Certificate::key_identifier() = {} but the configured derivation gives {}",
			crate::der::hex(&reported),
			crate::der::hex(&want_kid)
		));
	}
	for e in crate::x509::find_ext(&c.extensions, crate::x509::OID_SKI) {
		if let crate::x509::ExtValue::Ski(s) = &e.value {
			if s != &reported {
				return Err("Certificate::key_identifier() differs from the SKI in the DER".into());
			}
		}
	}
	Ok(())
}

pub fn kid_name(k: &KidSpec) -> &'static str {
	match k {
		KidSpec::Sha256 => "sha256",
		KidSpec::Sha384 => "sha384",
		KidSpec::Sha512 => "sha512",
		KidSpec::Pre(_) => "prespecified",
	}
}

fn base_case() -> CertCase {
	CertCase {
		spec: CertSpec::minimal(),
		key: KeySpec { alg: KeyAlg::Ed25519, idx: 0, rsa_hash: RsaHash::Sha256, remote: !cfg!(feature = "crypto") },
		pk_source: PkSource::KeyPair,
		issuer: None,
	}
}

fn default_kid() -> KidSpec {
	if cfg!(feature = "crypto") {
		KidSpec::Sha256
	} else {
		KidSpec::Pre(Hex(vec![1, 2, 3, 4]))
	}
}

pub fn ku_sweep_cases() -> Vec<CertCase> {
	let mut v = Vec::new();
	for mask in 1u32..512 {
		for with_san in [false, true] {
			let mut c = base_case();
			c.spec.kid = default_kid();
			c.spec.key_usages = (0u8..9).filter(|b| mask & (1 << b) != 0).collect();
			if with_san {
				c.spec.sans = vec![SanSpec::Dns("ku.example".into())];
			}
			v.push(c);
		}
	}
	v
}

pub fn pathlen_sweep_cases() -> Vec<CertCase> {
	(0u16..256)
		.map(|n| {
			let mut c = base_case();
			c.spec.kid = default_kid();
			c.spec.is_ca = IsCaSpec::CaConstrained(n as u8);
			c
		})
		.collect()
}

pub fn prefix_sweep_cases() -> Vec<CertCase> {
	let mut v = Vec::new();
	for prefix in 0u16..256 {
		for ctor in 0u8..3 {
			for addr in [vec![192u8, 168, 255, 129], vec![0x20, 0x01, 0x0d, 0xb8, 0xff, 0xff, 0xff, 0xff, 0x80, 0, 0, 0, 0, 0, 0, 1]] {
				let mut c = base_case();
				c.spec.kid = default_kid();
				c.spec.is_ca = IsCaSpec::CaUnconstrained;
				let st = SubtreeSpec::Ip(CidrSpec::Prefix { addr: Hex(addr), prefix: prefix as u8, ctor });
				c.spec.name_constraints = Some(if prefix % 2 == 0 {
					NcSpec { permitted: vec![st], excluded: vec![] }
				} else {
					NcSpec { permitted: vec![], excluded: vec![st] }
				});
				v.push(c);
			}
		}
	}
	v
}

pub fn def() -> PropertyDef {
	PropertyDef {
		id: "C02",
		rule: "Spec (every CertificateParams field, sparsity modes nothing/exactly-one/random-subset/everything, 3 public-key sources, self- and issuer-signed, all key algorithms) -> rcgen -> harness RFC 5280 decoder -> compared with the reference model; sweeps: 511 key-usage subsets (alone and with a SAN), 256 path lengths, 256 prefixes x 3 constructors x v4/v6. Non-trivial = at least one extension-bearing field set; distinct by hash of the Spec JSON.",
		assumptions: vec![
			"the harness DER/X.509 decoder (der.rs, x509.rs) is correct; it shares no code with rcgen/yasna/x509-parser and is unit- and differentially tested",
			"SHA-2 from OpenSSL and OpenSSL's SubjectPublicKeyInfo encoding of the fixture keys are the reference for key identifiers and SPKI bytes",
		],
		subs: vec![
			prop_sub("random", 96_000, 1_500_000, || cert_case(CertGenOpts::FULL, false), check_case),
			sweep_sub("ku-sweep", |_| ku_sweep_cases(), check_case),
			sweep_sub("pathlen-sweep", |_| pathlen_sweep_cases(), check_case),
			sweep_sub("prefix-sweep", |_| prefix_sweep_cases(), check_case),
			// oracle self-test: the decoder against OpenSSL's own encoder (failures are INTERNAL, exit 2)
			crate::props::selftest::sub(),
		],
	}
}
