//! C02 — a certificate says exactly what its parameters say.

use std::str::FromStr;

use proptest::prelude::*;
use serde::{Deserialize, Serialize};

use crate::gen::{self, CertGenOpts};
use crate::keys;
use crate::model;
use crate::props::common::*;
use crate::runner::*;
use crate::spec::*;

pub fn check_case(case: &CertCase, info: &mut CaseInfo) -> Result<(), String> {
	let fields = case.spec.ext_fields_set();
	info.nontrivial = !fields.is_empty();
	info.class(format!("sparsity:{}", gen::sparsity_class(&case.spec)));
	if fields.len() == 1 {
		info.class(format!("only:{}", fields[0]));
	}
	info.class(format!("key:{}", case.key.label()));
	info.class(if case.issuer.is_some() { "issuer-signed" } else { "self-signed" });
	info.class(format!("kid:{}", kid_name(&case.spec.kid)));

	let built = build_cert(case)?;
	info.class(format!("pk-source:{:?}", built.pk_source_used));
	let (c, _lints) = decode_cert(built.cert.der())?;
	let subject_spki = &keys::fixture(&case.key).spki;
	let issuer = issuer_info(case);
	model::check_cert(&c, &case.spec, subject_spki, &issuer)?;

	// The returned Certificate value reports the same parameters ...
	if built.cert.params() != &built.input_params {
		return Err("Certificate::params() differs from the parameters that were passed in".into());
	}
	// ... and the same key identifier as its DER.
	let want_kid = model::key_id(&case.spec.kid, subject_spki);
	let reported = built.cert.key_identifier();
	if reported != want_kid {
		return Err(format!(
			"Certificate::key_identifier() = {} but the configured derivation gives {}",
			crate::der::hex(&reported),
			crate::der::hex(&want_kid)
		));
	}
	for e in crate::x509::find_ext(&c.extensions, crate::x509::OID_SKI) {
		if let crate::x509::ExtValue::Ski(s) = &e.value {
			if s != &reported {
				return Err("Certificate::key_identifier() differs from the SKI in the DER".into());
			}
		}
	}
	Ok(())
}

pub fn kid_name(k: &KidSpec) -> &'static str {
	match k {
		KidSpec::Sha256 => "sha256",
		KidSpec::Sha384 => "sha384",
		KidSpec::Sha512 => "sha512",
		KidSpec::Pre(_) => "prespecified",
	}
}

fn base_case() -> CertCase {
	CertCase {
		spec: CertSpec::minimal(),
		key: KeySpec { alg: KeyAlg::Ed25519, idx: 0, rsa_hash: RsaHash::Sha256, remote: !cfg!(feature = "crypto") },
		pk_source: PkSource::KeyPair,
		issuer: None,
	}
}

fn default_kid() -> KidSpec {
	if cfg!(feature = "crypto") {
		KidSpec::Sha256
	} else {
		KidSpec::Pre(Hex(vec![1, 2, 3, 4]))
	}
}

pub fn ku_sweep_cases() -> Vec<CertCase> {
	let mut v = Vec::new();
	for mask in 1u32..512 {
		for with_san in [false, true] {
			let mut c = base_case();
			c.spec.kid = default_kid();
			c.spec.key_usages = (0u8..9).filter(|b| mask & (1 << b) != 0).collect();
			if with_san {
				c.spec.sans = vec![SanSpec::Dns("ku.example".into())];
			}
			v.push(c);
		}
	}
	v
}

pub fn pathlen_sweep_cases() -> Vec<CertCase> {
	(0u16..256)
		.map(|n| {
			let mut c = base_case();
			c.spec.kid = default_kid();
			c.spec.is_ca = IsCaSpec::CaConstrained(n as u8);
			c
		})
		.collect()
}

pub fn prefix_sweep_cases() -> Vec<CertCase> {
	let mut v = Vec::new();
	for prefix in 0u16..256 {
		for ctor in 0u8..3 {
			for addr in [vec![192u8, 168, 255, 129], vec![0x20, 0x01, 0x0d, 0xb8, 0xff, 0xff, 0xff, 0xff, 0x80, 0, 0, 0, 0, 0, 0, 1]] {
				let mut c = base_case();
				c.spec.kid = default_kid();
				c.spec.is_ca = IsCaSpec::CaUnconstrained;
				let st = SubtreeSpec::Ip(CidrSpec::Prefix { addr: Hex(addr), prefix: prefix as u8, ctor });
				c.spec.name_constraints = Some(if prefix % 2 == 0 {
					NcSpec { permitted: vec![st], excluded: vec![] }
				} else {
					NcSpec { permitted: vec![], excluded: vec![st] }
				});
				v.push(c);
			}
		}
	}
	v
}

// ---------------------------------------------------------------------------------------------
// Parameters built through the convenience constructors instead of the public fields.

#[derive(Clone, Debug, Serialize, Deserialize, PartialEq, Eq, Hash)]
pub enum ConvSerial {
	Unset,
	U64(u64),
	Bytes(Hex),
}

#[derive(Clone, Debug, Serialize, Deserialize, PartialEq, Eq, Hash)]
pub struct ConvCase {
	/// given to `CertificateParams::new` / `generate_simple_self_signed`
	pub names: Vec<String>,
	pub serial: ConvSerial,
	/// given one by one to `insert_extended_key_usage`
	pub ekus: Vec<EkuSpec>,
	/// pushed as (`DnType::from_oid(oid)`, text as `&str` or `String`)
	pub dn: Vec<(Vec<u64>, String, bool)>,
	/// `date_time_ymd` arguments
	pub not_before: (i32, u8, u8),
	pub not_after: (i32, u8, u8),
	pub key: KeySpec,
	/// go through `generate_simple_self_signed` (crypto builds; nothing but the names is used then)
	pub simple: bool,
}

fn conv_name() -> BoxedStrategy<String> {
	prop_oneof![
		4 => hostname_strategy(),
		2 => any::<[u8; 4]>().prop_map(|b| format!("{}.{}.{}.{}", b[0], b[1], b[2], b[3])),
		2 => any::<[u16; 8]>().prop_map(|w| std::net::Ipv6Addr::new(w[0], w[1], w[2], w[3], w[4], w[5], w[6], w[7]).to_string()),
		3 => prop::sample::select(vec![
			"::1", "::", "1.2.3.4", "2001:db8::1", "::ffff:10.0.0.1", "::10.0.0.1", "localhost", "1.2.3", "1.2.3.4.5", "256.1.1.1", "01.2.3.4", "1.2.3.04", "0x7f.1", "::g", "1.2.3.4:80", "[::1]",
			"fe80::1%eth0", "1:2:3:4:5:6:7:8", "1:2:3:4:5:6:7:8:9", "1::2::3", "0:0:0:0:0:0:0:0", "FE80::A", "", " 1.2.3.4", "1.2.3.4 ", "*.example.com", "a",
		])
		.prop_map(|s| s.to_string()),
		1 => prop::sample::select(vec!["ex\u{e4}mple.com", "\u{65e5}\u{672c}.jp", "a\u{80}", "\u{ff11}.2.3.4"]).prop_map(|s| s.to_string()),
		// any IA5 text: trailing and leading dots, upper case, blanks, brackets, long labels
		3 => gen::ia5_text(12),
	]
	.boxed()
}

fn ymd() -> impl Strategy<Value = (i32, u8, u8)> {
	(prop_oneof![3 => 1950i32..2050, 2 => 1i32..9999, 1 => prop::sample::select(vec![1, 1949, 1950, 2049, 2050, 9999])], 1u8..=12, 1u8..=28)
}

fn conv_case() -> BoxedStrategy<ConvCase> {
	let std_oid = prop::sample::select(vec![vec![2u64, 5, 4, 6], vec![2, 5, 4, 7], vec![2, 5, 4, 8], vec![2, 5, 4, 10], vec![2, 5, 4, 11], vec![2, 5, 4, 3]]);
	(
		proptest::collection::vec(conv_name(), 0..6),
		prop_oneof![
			2 => Just(ConvSerial::Unset),
			2 => prop_oneof![any::<u64>(), prop::sample::select(vec![0u64, 1, 127, 128, 255, 256, u64::MAX, 1 << 63, (1 << 63) - 1, 1 << 56])].prop_map(ConvSerial::U64),
			1 => gen::int_bytes(24).prop_map(ConvSerial::Bytes),
		],
		proptest::collection::vec(gen::eku(true, false), 0..5),
		proptest::collection::vec((prop_oneof![3 => std_oid, 1 => gen::moderate_oid()], "[ -~]{0,12}", any::<bool>()), 0..6),
		ymd(),
		ymd(),
		gen::key_spec(),
		prop::bool::weighted(0.2),
	)
		.prop_map(|(names, serial, ekus, dn, not_before, not_after, key, simple)| {
			// repeat some purposes: insert_extended_key_usage must keep one
			let mut e2 = ekus.clone();
			e2.extend(ekus.iter().step_by(2).cloned());
			ConvCase {
				names,
				serial: if cfg!(feature = "crypto") || !matches!(serial, ConvSerial::Unset) { serial } else { ConvSerial::U64(7) },
				ekus: e2,
				dn,
				not_before,
				not_after,
				key,
				simple: simple && cfg!(feature = "crypto"),
			}
		})
		.boxed()
}

fn ymd_unix(d: (i32, u8, u8)) -> i64 {
	crate::der::days_from_civil(d.0 as i64, d.1 as i64, d.2 as i64) * 86400
}

pub fn check_conv(c: &ConvCase, info: &mut CaseInfo) -> Result<(), String> {
	// what the documentation of `new` promises: IP literals become iPAddress names, the rest dNSNames
	let mut want_sans = Vec::new();
	let mut refused = false;
	for n in &c.names {
		match std::net::IpAddr::from_str(n) {
			Ok(std::net::IpAddr::V4(a)) => want_sans.push(SanSpec::Ip(Hex(a.octets().to_vec()))),
			Ok(std::net::IpAddr::V6(a)) => want_sans.push(SanSpec::Ip(Hex(a.octets().to_vec()))),
			Err(_) if n.is_ascii() => want_sans.push(SanSpec::Dns(n.clone())),
			Err(_) => refused = true,
		}
	}
	info.nontrivial = c.names.len() >= 2 || !c.dn.is_empty();
	info.class(format!("names:{}", c.names.len().min(3)));
	if want_sans.iter().any(|s| matches!(s, SanSpec::Ip(_))) {
		info.class("ip-literal");
	}
	let made = no_panic(|| rcgen::CertificateParams::new(c.names.clone())).map_err(|p| format!("CertificateParams::new: {p}"))?;
	let mut params = match (made, refused) {
		(Err(_), true) => {
			info.class("refused:non-ascii-name");
			#[cfg(feature = "crypto")]
			if rcgen::generate_simple_self_signed(c.names.clone()).is_ok() {
				return Err("generate_simple_self_signed accepts a name CertificateParams::new refuses".into());
			}
			return Ok(());
		},
		(Ok(_), true) => return Err(format!("CertificateParams::new accepts a non-ASCII, non-IP name among {:?}", c.names)),
		(Err(e), false) => return Err(format!("CertificateParams::new refuses the names {:?}: {e}", c.names)),
		(Ok(p), false) => p,
	};
	let mut spec = CertSpec::minimal();
	spec.sans = want_sans;
	spec.dn = DnSpec(vec![(DnTypeSpec::CommonName, DnValueSpec::new(StrKind::Utf8, "rcgen self signed cert"))]);
	spec.not_before = TimeSpec { unix: ymd_unix((1975, 1, 1)), nanos: 0, offset: 0 };
	spec.not_after = TimeSpec { unix: ymd_unix((4096, 1, 1)), nanos: 0, offset: 0 };

	#[cfg(feature = "crypto")]
	if c.simple {
		info.class("generate_simple_self_signed");
		let ck = rcgen::generate_simple_self_signed(c.names.clone()).map_err(|e| format!("generate_simple_self_signed refuses {:?}: {e}", c.names))?;
		let (d, _) = decode_cert(ck.cert.der())?;
		let spki = ck.key_pair.public_key_der();
		// the returned key pair is the certificate's key: it must be able to sign for it
		let probe = rcgen::CertificateParams::default().serialize_request(&ck.key_pair).map_err(|e| e.to_string())?;
		let (pd, _) = decode_csr(probe.der())?;
		if pd.spki.raw != d.spki.raw {
			return Err("generate_simple_self_signed returns a key pair that is not the certificate's".into());
		}
		spec.serial = None;
		spec.kid = KidSpec::Sha256;
		let issuer = model::IssuerInfo { dn: &spec.dn, kid: &spec.kid, spki: &spki };
		model::check_cert(&d, &spec, &spki, &issuer)?;
		return Ok(());
	}

	// the remaining convenience constructors
	match &c.serial {
		ConvSerial::Unset => spec.serial = None,
		ConvSerial::U64(u) => {
			params.serial_number = Some(rcgen::SerialNumber::from(*u));
			spec.serial = Some(Hex(u.to_be_bytes().to_vec()));
			info.class("serial:from-u64");
		},
		ConvSerial::Bytes(b) => {
			params.serial_number = Some(rcgen::SerialNumber::from(b.0.clone()));
			spec.serial = Some(b.clone());
			info.class("serial:from-vec");
		},
	}
	let mut want_ekus: Vec<EkuSpec> = Vec::new();
	for e in &c.ekus {
		params.insert_extended_key_usage(crate::mk::eku(e));
		if !want_ekus.iter().any(|w| w.oid() == e.oid()) {
			want_ekus.push(e.clone());
		}
	}
	spec.ekus = want_ekus;
	for (oid, text, owned) in &c.dn {
		let ty = rcgen::DnType::from_oid(oid);
		if *owned {
			params.distinguished_name.push(ty, text.clone());
		} else {
			params.distinguished_name.push(ty, text.as_str());
		}
		let t = DnTypeSpec::Custom(oid.clone());
		let v = DnValueSpec::new(StrKind::Utf8, text.clone());
		if let Some(e) = spec.dn.0.iter_mut().find(|(t2, _)| t2.oid() == *oid) {
			e.1 = v;
		} else {
			spec.dn.0.push((t, v));
		}
	}
	params.not_before = rcgen::date_time_ymd(c.not_before.0, c.not_before.1, c.not_before.2);
	params.not_after = rcgen::date_time_ymd(c.not_after.0, c.not_after.1, c.not_after.2);
	spec.not_before = TimeSpec { unix: ymd_unix(c.not_before), nanos: 0, offset: 0 };
	spec.not_after = TimeSpec { unix: ymd_unix(c.not_after), nanos: 0, offset: 0 };
	if !cfg!(feature = "crypto") {
		params.key_identifier_method = rcgen::KeyIdMethod::PreSpecified(vec![1, 2, 3, 4]);
	}
	let key = keys::make_key(&c.key)?;
	let input = params.clone();
	let cert = params.self_signed(&key).map_err(|e| format!("self_signed refuses parameters built with the convenience constructors: {e}"))?;
	if cert.params() != &input {
		return Err("Certificate::params() differs from the parameters that were passed in".into());
	}
	let (d, _) = decode_cert(cert.der())?;
	let spki = &keys::fixture(&c.key).spki;
	let issuer = model::IssuerInfo { dn: &spec.dn, kid: &spec.kid, spki };
	model::check_cert(&d, &spec, spki, &issuer)
}

// ---------------------------------------------------------------------------------------------
// A parameter object that has been used before and is then edited: the certificate must say what
// the parameters say *now*.

#[derive(Clone, Debug, Serialize, Deserialize, PartialEq, Eq, Hash)]
pub struct ReuseCase {
	pub first: CertSpec,
	pub second: CertCase,
	/// edit collections and name where they stand instead of assigning the fields
	pub in_place: bool,
	/// how the object was used before: bit 0 serialize_request through a reference, bit 1
	/// self_signed from a clone, bit 2 start from a clone of an issued certificate's params()
	pub warm: u8,
}

pub fn check_reuse(c: &ReuseCase, info: &mut CaseInfo) -> Result<(), String> {
	info.nontrivial = true;
	info.class(if c.in_place { "edit:in-place" } else { "edit:assign-fields" });
	info.class(format!("warm:{}", c.warm % 8));
	let key = keys::make_key(&c.second.key)?;
	let mut params = crate::mk::cert_params(&c.first)?;
	if c.warm & 4 != 0 {
		if let Ok(cert) = params.clone().self_signed(&key) {
			params = cert.params().clone();
		}
	}
	if c.warm & 1 != 0 {
		let _ = params.serialize_request(&key);
	}
	if c.warm & 2 != 0 {
		let _ = params.clone().self_signed(&key);
	}
	crate::mk::cert_params_onto(&mut params, &c.second.spec, c.in_place)?;
	let fresh = crate::mk::cert_params(&c.second.spec)?;
	if params != fresh {
		return Err("an edited parameter object differs (==) from a fresh one with the same field values".into());
	}
	let (cert, issuer_built) = match &c.second.issuer {
		None => (params.self_signed(&key).map_err(|e| format!("self_signed: {e}"))?, None),
		Some(i) => {
			let ik = keys::make_key(&i.key)?;
			let ic = crate::mk::cert_params(&i.spec)?.self_signed(&ik).map_err(|e| format!("issuer: {e}"))?;
			(params.signed_by(&key, &ic, &ik).map_err(|e| format!("signed_by: {e}"))?, Some(()))
		},
	};
	let _ = issuer_built;
	let (d, _) = decode_cert(cert.der())?;
	let subject_spki = &keys::fixture(&c.second.key).spki;
	let issuer = issuer_info(&c.second);
	model::check_cert(&d, &c.second.spec, subject_spki, &issuer).map_err(|e| format!("after editing a used parameter object: {e}"))
}

fn reuse_case() -> BoxedStrategy<ReuseCase> {
	(gen::cert_spec(CertGenOpts::FULL), cert_case(CertGenOpts::FULL, true), any::<bool>(), 0u8..8)
		.prop_map(|(first, mut second, in_place, warm)| {
			second.pk_source = PkSource::KeyPair;
			ReuseCase { first, second, in_place, warm }
		})
		.boxed()
}

pub fn def() -> PropertyDef {
	PropertyDef {
		id: "C02",
		rule: "Spec (every CertificateParams field, sparsity modes nothing/exactly-one/random-subset/everything, 3 public-key sources, self- and issuer-signed, all key algorithms) -> rcgen -> harness RFC 5280 decoder -> compared with the reference model; sweeps: 511 key-usage subsets (alone and with a SAN), 256 path lengths, 256 prefixes x 3 constructors x v4/v6. Sub-check constructors: parameters built through the convenience API instead of the public fields (CertificateParams::new and generate_simple_self_signed with host names, IP literals, look-alikes and arbitrary IA5 texts; SerialNumber::from(u64 / Vec<u8>); insert_extended_key_usage with repeats; DnType::from_oid with &str / String values pushed onto the default name; date_time_ymd) against the same model. Sub-check params-reuse: a parameter object made for other content, already used (serialize_request through a reference, self_signed from a clone, or taken from an issued certificate's params()), is edited field by field or in place (collections cleared and refilled, name attributes removed and pushed) into the case's parameters; it must equal a fresh object and produce the certificate the model expects. Non-trivial = at least one extension-bearing field set (constructors: two or more names or a pushed attribute); distinct by hash of the Spec JSON.",
		assumptions: vec![
			"the harness DER/X.509 decoder (der.rs, x509.rs) is correct; it shares no code with rcgen/yasna/x509-parser and is unit- and differentially tested",
			"SHA-2 from OpenSSL and OpenSSL's SubjectPublicKeyInfo encoding of the fixture keys are the reference for key identifiers and SPKI bytes",
		],
		subs: vec![
			prop_sub("random", 96_000, 1_500_000, || cert_case(CertGenOpts::FULL, false), check_case),
			sweep_sub("ku-sweep", |_| ku_sweep_cases(), check_case),
			sweep_sub("pathlen-sweep", |_| pathlen_sweep_cases(), check_case),
			sweep_sub("prefix-sweep", |_| prefix_sweep_cases(), check_case),
			prop_sub("constructors", 24_000, 300_000, conv_case, check_conv),
			prop_sub("params-reuse", 24_000, 300_000, reuse_case, check_reuse),
			// oracle self-test: the decoder against OpenSSL's own encoder (failures are INTERNAL, exit 2)
			crate::props::selftest::sub(),
		],
	}
}
