//! C14 — PEM output is a faithful RFC 7468 envelope of the DER.

use proptest::prelude::*;
use serde::{Deserialize, Serialize};

use crate::keys;
use crate::mk;
use crate::pemstrict;
use crate::props::common::*;
use crate::runner::*;
use crate::spec::*;

#[derive(Clone, Copy, Debug, Serialize, Deserialize, PartialEq, Eq, Hash)]
pub enum Kind {
	Cert,
	Csr,
	Crl,
	PrivateKey,
	PublicKey,
}

/// `pad` bytes of extra content steer the DER length (custom extension / attribute /
/// revoked entries).
#[derive(Clone, Debug, Serialize, Deserialize, PartialEq, Eq, Hash)]
pub struct PemCase {
	pub kind: Kind,
	pub key: KeySpec,
	pub pad: u16,
}

fn pad_ext(pad: u16) -> CustomExtSpec {
	CustomExtSpec {
		oid: vec![1, 3, 6, 1, 4, 1, 55555, 14],
		critical: false,
		content: Hex(crate::der::enc_tlv(0x04, &vec![0xa5; pad as usize])),
		acme: false,
	}
}

pub fn check_case(c: &PemCase, info: &mut CaseInfo) -> Result<(), String> {
	let key = keys::make_key(&c.key)?;
	let (label, der, text): (&str, Vec<u8>, String) = match c.kind {
		Kind::Cert => {
			let mut spec = CertSpec::minimal();
			spec.kid = KidSpec::Pre(Hex(vec![1]));
			spec.custom_exts = vec![pad_ext(c.pad)];
			let cert = mk::cert_params(&spec)?.self_signed(&key).map_err(|e| e.to_string())?;
			// rcgen's own loader accepts the text and recovers the same content as from DER
			let from_pem = rcgen::CertificateParams::from_ca_cert_pem(&cert.pem());
			let from_der = rcgen::CertificateParams::from_ca_cert_der(cert.der());
			match (from_pem, from_der) {
				(Ok(a), Ok(b)) => {
					if a != b {
						return Err("from_ca_cert_pem and from_ca_cert_der disagree on the same certificate".into());
					}
				},
				(a, b) => {
					if a.is_ok() != b.is_ok() {
						return Err(format!("from_ca_cert_pem ok={} but from_ca_cert_der ok={}", a.is_ok(), b.is_ok()));
					}
				},
			}
			if let Ok(x) = openssl::x509::X509::from_pem(cert.pem().as_bytes()) {
				if x.to_der().map_err(|e| e.to_string())? != cert.der().as_ref() {
					return Err("OpenSSL reads different bytes from the certificate PEM".into());
				}
			} else {
				return Err("OpenSSL's PEM reader rejects the certificate PEM".into());
			}
			("CERTIFICATE", cert.der().to_vec(), cert.pem())
		},
		Kind::Csr => {
			let mut spec = CertSpec::minimal();
			spec.custom_exts = vec![pad_ext(c.pad)];
			let csr = mk::cert_params(&spec)?.serialize_request(&key).map_err(|e| e.to_string())?;
			let text = csr.pem().map_err(|e| e.to_string())?;
			if c.key.alg != KeyAlg::P521 {
				// custom extensions make rcgen's CSR parser refuse; use a request without them for the loader
				let plain = mk::cert_params(&CertSpec::minimal())?.serialize_request(&key).map_err(|e| e.to_string())?;
				let a = rcgen::CertificateSigningRequestParams::from_pem(&plain.pem().map_err(|e| e.to_string())?)
					.map_err(|e| format!("CSR from_pem rejects rcgen's own PEM: {e}"))?;
				let b = rcgen::CertificateSigningRequestParams::from_der(plain.der()).map_err(|e| format!("CSR from_der: {e}"))?;
				if a.params != b.params || a.public_key != b.public_key {
					return Err("CSR from_pem and from_der disagree".into());
				}
			}
			let x = openssl::x509::X509Req::from_pem(text.as_bytes()).map_err(|_| "OpenSSL's PEM reader rejects the CSR PEM")?;
			if x.to_der().map_err(|e| e.to_string())? != csr.der().as_ref() {
				return Err("OpenSSL reads different bytes from the CSR PEM".into());
			}
			("CERTIFICATE REQUEST", csr.der().to_vec(), text)
		},
		Kind::Crl => {
			let issuer = IssuerCase { spec: CertSpec::minimal(), key: c.key };
			let t = TimeSpec { unix: 1_600_000_000, nanos: 0, offset: 0 };
			let crl = CrlSpec {
				this_update: t,
				next_update: TimeSpec { unix: 1_700_000_000, nanos: 0, offset: 0 },
				crl_number: Hex(vec![0x11; (c.pad % 19) as usize + 1]),
				idp: None,
				revoked: (0..(c.pad / 19)).map(|i| RevokedSpec { serial: Hex(vec![1, (i >> 8) as u8, i as u8]), revocation_time: t, reason: None, invalidity_date: None }).collect(),
				kid: KidSpec::Pre(Hex(vec![1])),
			};
			let built = build_crl(&CrlCase { crl, issuer })?.map_err(|e| e.to_string())?;
			let text = built.crl.pem().map_err(|e| e.to_string())?;
			let x = openssl::x509::X509Crl::from_pem(text.as_bytes()).map_err(|_| "OpenSSL's PEM reader rejects the CRL PEM")?;
			if x.to_der().map_err(|e| e.to_string())? != built.crl.der().as_ref() {
				return Err("OpenSSL reads different bytes from the CRL PEM".into());
			}
			("X509 CRL", built.crl.der().to_vec(), text)
		},
		Kind::PrivateKey => {
			if c.key.remote || !cfg!(feature = "crypto") {
				info.class("skipped:remote-key-has-no-export");
				return Ok(());
			}
			let text = key.serialize_pem();
			let der = key.serialize_der();
			#[cfg(feature = "crypto")]
			{
				let back = rcgen::KeyPair::from_pem(&text).map_err(|e| format!("KeyPair::from_pem rejects rcgen's own PEM: {e}"))?;
				if back.serialize_der() != der || back.public_key_der() != key.public_key_der() {
					return Err("KeyPair::from_pem recovers different bytes".into());
				}
			}
			let p = openssl::pkey::PKey::private_key_from_pem(text.as_bytes()).map_err(|_| "OpenSSL's PEM reader rejects the private key PEM")?;
			if p.public_key_to_der().map_err(|e| e.to_string())? != keys::fixture(&c.key).spki {
				return Err("OpenSSL reads a different key from the private key PEM".into());
			}
			("PRIVATE KEY", der, text)
		},
		Kind::PublicKey => {
			let text = key.public_key_pem();
			let der = key.public_key_der();
			let a = rcgen::SubjectPublicKeyInfo::from_pem(&text).map_err(|e| format!("SubjectPublicKeyInfo::from_pem rejects rcgen's own PEM: {e}"))?;
			let b = rcgen::SubjectPublicKeyInfo::from_der(&der).map_err(|e| format!("SubjectPublicKeyInfo::from_der: {e}"))?;
			if a != b {
				return Err("SubjectPublicKeyInfo from_pem and from_der disagree".into());
			}
			let p = openssl::pkey::PKey::public_key_from_pem(text.as_bytes()).map_err(|_| "OpenSSL's PEM reader rejects the public key PEM")?;
			if p.public_key_to_der().map_err(|e| e.to_string())? != der {
				return Err("OpenSSL reads a different key from the public key PEM".into());
			}
			("PUBLIC KEY", der, text)
		},
	};
	let decoded = pemstrict::decode(&text, label).map_err(|e| format!("{:?}: PEM text is not a strict RFC 7468 envelope: {e}", c.kind))?;
	if decoded != der {
		return Err(format!("{:?}: PEM decodes to different bytes than the DER accessor returns", c.kind));
	}
	info.nontrivial = true;
	info.class(format!("{:?}", c.kind));
	info.class(format!("len%3={}", der.len() % 3));
	info.class(format!("{:?}:len%48={}", c.kind, der.len() % 48));
	Ok(())
}

fn sweep(cfg: &RunCfg) -> Vec<PemCase> {
	let mut v = Vec::new();
	let ed = KeySpec { alg: KeyAlg::Ed25519, idx: 0, rsa_hash: RsaHash::Sha256, remote: !cfg!(feature = "crypto") };
	let max = if cfg.tier == Tier::Thorough { 1200 } else { 160 };
	for pad in 0..max {
		for kind in [Kind::Cert, Kind::Csr, Kind::Crl] {
			v.push(PemCase { kind, key: ed, pad });
		}
	}
	// every fixture key, both key kinds, and certificates/CSRs/CRLs under it
	for alg in keys::available_algs() {
		for idx in 0..keys::fixtures().pools[&alg].len() as u8 {
			let key = KeySpec { alg, idx, rsa_hash: RsaHash::Sha512, remote: !cfg!(feature = "crypto") };
			for kind in [Kind::PrivateKey, Kind::PublicKey, Kind::Cert, Kind::Csr, Kind::Crl] {
				v.push(PemCase { kind, key, pad: 7 * idx as u16 });
			}
		}
	}
	// multi-kilobyte RSA-4096 certificates
	let rsa = KeySpec { alg: KeyAlg::Rsa4096, idx: 0, rsa_hash: RsaHash::Sha256, remote: !cfg!(feature = "crypto") };
	for pad in [0u16, 1, 2, 47, 48, 49, 3000, 3001, 3002, 9000] {
		v.push(PemCase { kind: Kind::Cert, key: rsa, pad });
	}
	v
}

fn random_case() -> BoxedStrategy<PemCase> {
	(
		prop::sample::select(vec![Kind::Cert, Kind::Csr, Kind::Crl, Kind::PrivateKey, Kind::PublicKey]),
		crate::gen::key_spec(),
		prop_oneof![3 => 0u16..200, 1 => 200u16..6000],
	)
		.prop_map(|(kind, key, pad)| PemCase { kind, key, pad })
		.boxed()
}

pub fn def() -> PropertyDef {
	PropertyDef {
		id: "C14",
		rule: "All five PEM-producing accessors (certificate, CSR, CRL, private key, public key) over every fixture key and over DER lengths steered through padding content: a sweep of pad lengths 0..160 (quick) / 0..1200 (thorough) covers every residue mod 3 and mod 48 for certificate, CSR and CRL; random cases up to ~6 kB and RSA-4096; a strict RFC 7468 decoder (exact labels, LF, 64-column lines, canonical padding, single trailing newline) must return exactly the DER accessor's bytes; rcgen's own PEM loaders and OpenSSL's PEM reader must recover the same content. Every case is non-trivial; distinct by (kind, key, pad).",
		assumptions: vec!["the harness's strict PEM/base64 decoder (unit-tested)", "Linux: LF line endings are the platform's"],
		subs: vec![sweep_sub("length-sweep", sweep, check_case), prop_sub("random", 3_000, 200_000, random_case, check_case)],
	}
}
