//! C10 — the public API never panics: untrusted bytes and constructible parameters.

use std::str::FromStr;

use proptest::prelude::*;
use serde::{Deserialize, Serialize};

use crate::der::Lints;
use crate::findings;
use crate::gen::{self, CertGenOpts};
use crate::keys;
use crate::mk;
use crate::pemstrict;
use crate::props::c06::{apply_mutation, mutation, ForeignCsr, Mutation};
use crate::props::c17::ForeignCa;
use crate::props::common::*;
use crate::runner::*;
use crate::spec::*;

// ---------------------------------------------------------------------------------------------
// bytes

#[derive(Clone, Debug, Serialize, Deserialize, PartialEq, Eq, Hash)]
pub enum Base {
	Cert(CertCase),
	ForeignCa(ForeignCa),
	Csr(CsrCase),
	ForeignCsr(ForeignCsr),
	/// fixture key: (algorithm, index, legacy encoding?)
	Key(KeyAlg, u8, bool),
	Spki(KeySpec),
	Crl(CrlCase),
	Random(Hex),
	/// a CA certificate with structurally valid but unusual field contents (structure-aware fuzzing)
	OddCa(OddCa),
	/// a SubjectPublicKeyInfo / PKCS#8 document around an unusual AlgorithmIdentifier
	OddKey(OddKey),
	/// a validly signed request with unusual subject values and requested extensions
	OddCsr(OddCa),
}

/// Key documents that a generic DER parser accepts but whose AlgorithmIdentifier (OID x parameters
/// form), version or key octets are not what the loaders' match arms expect.
#[derive(Clone, Debug, Serialize, Deserialize, PartialEq, Eq, Hash)]
pub struct OddKey {
	pub key: KeySpec,
	/// 0 = SubjectPublicKeyInfo, 1 = PKCS#8 v1, 2 = PKCS#8 with [1] public key, 3 = PKCS#8 with [0] attributes
	pub form: u8,
	pub alg_oid: u8,
	pub params: u8,
	/// replaces the fixture's key octets when present
	pub key_octets: Option<Hex>,
	pub unused_bits: u8,
	pub version: Hex,
}

pub fn odd_key() -> BoxedStrategy<OddKey> {
	(
		gen::key_spec(),
		0u8..4,
		prop_oneof![4 => Just(0u8), 2 => Just(1u8), 2 => Just(2u8), 1 => 3u8..8],
		0u8..12,
		prop::option::weighted(0.3, proptest::collection::vec(any::<u8>(), 0..70)),
		prop_oneof![6 => Just(0u8), 1 => 1u8..8, 1 => any::<u8>()],
		prop_oneof![5 => Just(vec![0u8]), 2 => Just(vec![1u8]), 1 => proptest::collection::vec(any::<u8>(), 0..3)],
	)
		.prop_map(|(key, form, alg_oid, params, key_octets, unused_bits, version)| OddKey {
			key,
			form,
			alg_oid,
			params,
			key_octets: key_octets.map(Hex),
			unused_bits,
			version: Hex(version),
		})
		.boxed()
}

pub fn forge_odd_key(o: &OddKey) -> Result<Vec<u8>, String> {
	use crate::der::{enc_oid, enc_seq, enc_tlv};
	let oids: [&[u64]; 8] = [
		&[1, 2, 840, 10045, 2, 1],       // id-ecPublicKey
		&[1, 2, 840, 113549, 1, 1, 1],  // rsaEncryption
		&[1, 3, 101, 112],              // Ed25519
		&[1, 3, 101, 113],              // Ed448
		&[1, 2, 840, 113549, 1, 1, 10], // RSASSA-PSS
		&[1, 3, 132, 1, 12],            // id-ecDH
		&[1, 2, 840, 10040, 4, 1],      // DSA
		&[1, 3, 6, 1, 4, 1, 55555, 9],
	];
	let mut alg = vec![enc_oid(oids[o.alg_oid as usize % 8])];
	match o.params % 12 {
		0 => {},
		1 => alg.push(vec![0x05, 0x00]),
		2 => alg.push(enc_oid(&[1, 2, 840, 10045, 3, 1, 7])),
		3 => alg.push(enc_oid(&[1, 3, 132, 0, 34])),
		4 => alg.push(enc_oid(&[1, 3, 132, 0, 35])),
		5 => alg.push(enc_oid(&[1, 3, 132, 0, 10])),
		6 => alg.push(enc_seq(&[])),
		7 => alg.push(crate::der::enc_uint(1)),
		8 => alg.push(enc_tlv(0x04, &[1, 2, 3])),
		9 => {
			alg.push(enc_oid(&[1, 2, 840, 10045, 3, 1, 7]));
			alg.push(vec![0x05, 0x00]);
		},
		10 => alg.push(vec![0x06, 0x00]),
		_ => alg.push(enc_seq(&[crate::der::enc_uint(1), enc_seq(&[enc_oid(&[1, 2, 840, 10045, 1, 1]), crate::der::enc_uint(23)])])),
	}
	let alg = enc_seq(&alg);
	let fx = keys::fixture(&o.key);
	if o.form % 4 == 0 {
		let bits = o.key_octets.as_ref().map(|h| h.0.clone()).unwrap_or_else(|| fx.raw_public.clone());
		let mut content = vec![if bits.is_empty() { 0 } else { o.unused_bits % 8 }];
		content.extend(bits);
		return Ok(enc_seq(&[alg, enc_tlv(0x03, &content)]));
	}
	// PKCS#8: take the fixture's inner private key octets
	let l = crate::der::Lints::new();
	let t = crate::der::read_single(&fx.pk8, &l, "pkcs8")?;
	let parts = crate::der::children(t.content, &l)?;
	let inner = o.key_octets.as_ref().map(|h| h.0.clone()).unwrap_or_else(|| parts.get(2).map(|p| p.content.to_vec()).unwrap_or_default());
	let mut items = vec![enc_tlv(0x02, &o.version.0), alg, enc_tlv(0x04, &inner)];
	match o.form % 4 {
		2 => items.push(enc_tlv(0x81, &[&[0u8][..], &fx.raw_public].concat())),
		3 => items.push(enc_tlv(0xa0, &enc_seq(&[enc_oid(&[1, 2, 3]), enc_tlv(0x31, &[])]))),
		_ => {},
	}
	Ok(enc_seq(&items))
}

/// Field contents a generic DER parser accepts but rcgen's converters may not expect.
#[derive(Clone, Debug, Serialize, Deserialize, PartialEq, Eq, Hash)]
pub struct OddCa {
	pub key: KeySpec,
	/// lengths of iPAddress values in permitted / excluded subtrees
	pub nc_ip_lens: Vec<u8>,
	pub nc_on_excluded: bool,
	/// lengths of iPAddress values in the SAN
	pub san_ip_lens: Vec<u8>,
	/// content octets of the pathLenConstraint INTEGER (empty = absent)
	pub path_len: Hex,
	/// content octets of the keyUsage BIT STRING incl. the unused-bits octet
	pub key_usage: Hex,
	/// (universal tag, content) of subject attribute values
	pub subject_values: Vec<(u8, Hex)>,
	/// universal tag and content of an otherName value
	pub other_name: Option<(u8, Hex)>,
	pub serial: Hex,
	/// use `serial` as the raw INTEGER content (may be empty, negative, non-minimal)
	#[serde(default)]
	pub serial_raw: bool,
	pub eku_arcs: Vec<u64>,
	/// content octets of one more KeyPurposeId, as they are (overlong arcs, arcs beyond 64 bits, a
	/// dangling continuation bit, empty)
	#[serde(default)]
	pub eku_raw: Option<Hex>,
	pub fill: u8,
}

pub fn odd_ca() -> BoxedStrategy<OddCa> {
	let lens = || proptest::collection::vec(prop_oneof![3 => 0u8..40, 1 => prop::sample::select(vec![4u8, 8, 9, 16, 31, 32, 33])], 0..3);
	(
		(gen::cheap_key(), lens(), any::<bool>(), lens(), proptest::collection::vec(any::<u8>(), 0..10), proptest::collection::vec(any::<u8>(), 0..5)),
		(
			proptest::collection::vec((prop::sample::select(vec![12u8, 19, 22, 20, 30, 28, 18, 26, 4, 2]), proptest::collection::vec(any::<u8>(), 0..9)), 0..4),
			prop::option::of((prop::sample::select(vec![12u8, 22, 4, 2, 5, 48]), proptest::collection::vec(any::<u8>(), 0..8))),
			proptest::collection::vec(any::<u8>(), 0..24),
			proptest::collection::vec(any::<u64>(), 0..4),
			(any::<u8>(), prop::bool::weighted(0.3), prop::option::weighted(0.3, prop_oneof![
				proptest::collection::vec(any::<u8>(), 0..14),
				// an arc of 2^64 and more; a last octet with the continuation bit set
				Just(vec![0x2b, 0x82, 0x80, 0x80, 0x80, 0x80, 0x80, 0x80, 0x80, 0x80, 0x00, 0x01]),
				Just(vec![0x2b, 0x06, 0x01, 0xff, 0xff, 0xff, 0xff, 0xff, 0xff, 0xff, 0xff, 0xff, 0x7f]),
				Just(vec![0x2b, 0x06, 0x01, 0x85]),
				Just(vec![0x80, 0x01]),
			])),
		),
	)
		.prop_map(|((key, nc_ip_lens, nc_on_excluded, san_ip_lens, path_len, key_usage), (sv, other_name, serial, eku_arcs, (fill, serial_raw, eku_raw)))| OddCa {
			key,
			nc_ip_lens,
			nc_on_excluded,
			san_ip_lens,
			path_len: Hex(path_len),
			key_usage: Hex(key_usage),
			subject_values: sv.into_iter().map(|(t, c)| (t, Hex(c))).collect(),
			other_name: other_name.map(|(t, c)| (t, Hex(c))),
			serial: Hex(serial),
			serial_raw,
			eku_arcs,
			eku_raw: eku_raw.map(Hex),
			fill,
		})
		.boxed()
}

/// (extensions, subject Name) of an odd certificate / request.
fn odd_parts(o: &OddCa, for_csr: bool) -> (Vec<Vec<u8>>, Vec<u8>) {
	use crate::der::{enc_oid, enc_seq, enc_tlv};
	use crate::forge::*;
	use crate::x509::*;
	let mut exts = Vec::new();
	// basic constraints with arbitrary pathLen octets
	let mut bc = vec![enc_bool(true)];
	if !o.path_len.0.is_empty() {
		bc.push(enc_tlv(0x02, &o.path_len.0));
	}
	if !for_csr {
		exts.push(enc_ext(OID_BC, true, &enc_seq(&bc)));
	}
	if !o.key_usage.0.is_empty() {
		let mut ku = o.key_usage.0.clone();
		ku[0] %= 8;
		exts.push(enc_ext(OID_KU, true, &enc_tlv(0x03, &ku)));
	}
	if !o.nc_ip_lens.is_empty() && !for_csr {
		let subtrees: Vec<u8> = o.nc_ip_lens.iter().map(|l| enc_seq(&[enc_tlv(0x87, &vec![o.fill; *l as usize])])).collect::<Vec<_>>().concat();
		let part = enc_tlv(if o.nc_on_excluded { 0xa1 } else { 0xa0 }, &subtrees);
		exts.push(enc_ext(OID_NC, true, &enc_seq(&[part])));
	}
	let mut sans: Vec<Vec<u8>> = o.san_ip_lens.iter().map(|l| enc_tlv(0x87, &vec![o.fill; *l as usize])).collect();
	if let Some((tag, content)) = &o.other_name {
		let value = enc_tlv(if *tag == 48 { 0x30 } else { *tag }, &content.0);
		sans.push(enc_tlv(0xa0, &[enc_oid(&[1, 3, 6, 1, 4, 1, 311, 20, 2, 3]), enc_tlv(0xa0, &value)].concat()));
	}
	if !sans.is_empty() {
		exts.push(enc_ext(OID_SAN, false, &enc_seq(&sans)));
	}
	if !o.eku_arcs.is_empty() || o.eku_raw.is_some() {
		let mut purposes = Vec::new();
		if !o.eku_arcs.is_empty() {
			let mut arcs = vec![1u64, 3];
			arcs.extend(&o.eku_arcs);
			purposes.push(enc_oid(&arcs));
		}
		purposes.push(enc_oid(&[1, 3, 6, 1, 5, 5, 7, 3, 1]));
		if let Some(raw) = &o.eku_raw {
			purposes.push(enc_tlv(0x06, &raw.0));
		}
		exts.push(enc_ext(OID_EKU, false, &enc_seq(&purposes)));
	}
	if !for_csr {
		exts.push(enc_ext(OID_SKI, false, &enc_octets(&[o.fill; 20])));
	}
	// subject with arbitrary value tags / contents
	let types: [&[u64]; 4] = [&[2, 5, 4, 3], &[2, 5, 4, 10], &[2, 5, 4, 6], &[1, 2, 840, 113549, 1, 9, 1]];
	let rdns: Vec<Vec<u8>> = o
		.subject_values
		.iter()
		.enumerate()
		.map(|(i, (tag, content))| enc_tlv(0x31, &enc_seq(&[enc_oid(types[i % 4]), enc_tlv(*tag, &content.0)])))
		.collect();
	(exts, enc_seq(&rdns))
}

pub fn forge_odd_ca(o: &OddCa) -> Result<Vec<u8>, String> {
	use crate::der::{enc_seq, enc_tlv};
	use crate::forge::*;
	let (exts, name_der) = odd_parts(o, false);
	let fx = keys::fixture(&o.key);
	let tbs = enc_seq(&[
		enc_tlv(0xa0, &crate::der::enc_uint(2)),
		if o.serial_raw { enc_tlv(0x02, &o.serial.0) } else { enc_uint_bytes(&o.serial.0) },
		sig_alg_der(o.key.alg, FDigest::Sha256),
		name_der.clone(),
		enc_seq(&[enc_time(1_000_000_000), enc_time(2_000_000_000)]),
		name_der,
		fx.spki.clone(),
		enc_tlv(0xa3, &enc_seq(&exts)),
	]);
	let digest = if o.key.alg == KeyAlg::Ed25519 { None } else { Some(FDigest::Sha256.md()) };
	let sig = keys::openssl_sign(&fx.pkey, digest, &tbs)?;
	Ok(enc_seq(&[tbs, sig_alg_der(o.key.alg, FDigest::Sha256), enc_bits(&sig, 0)]))
}

/// A validly signed request with the same unusual subject values and requested extensions.
pub fn forge_odd_csr(o: &OddCa) -> Result<Vec<u8>, String> {
	use crate::der::{enc_oid, enc_seq, enc_tlv};
	use crate::forge::*;
	let (exts, name_der) = odd_parts(o, true);
	let fx = keys::fixture(&o.key);
	let mut attrs: Vec<Vec<u8>> = Vec::new();
	if !exts.is_empty() {
		attrs.push(enc_seq(&[enc_oid(crate::x509::OID_EXT_REQ), enc_tlv(0x31, &enc_seq(&exts))]));
	}
	let mut set = crate::der::enc_set_of(&attrs);
	set[0] = 0xa0;
	let cri = enc_seq(&[crate::der::enc_uint(0), name_der, fx.spki.clone(), set]);
	let digest = if o.key.alg == KeyAlg::Ed25519 { None } else { Some(FDigest::Sha256.md()) };
	let sig = keys::openssl_sign(&fx.pkey, digest, &cri)?;
	Ok(enc_seq(&[cri, sig_alg_der(o.key.alg, FDigest::Sha256), enc_bits(&sig, 0)]))
}

#[derive(Clone, Debug, Serialize, Deserialize, PartialEq, Eq, Hash)]
pub struct BytesCase {
	pub base: Base,
	pub mutations: Vec<Mutation>,
	/// edits applied to the PEM text of the (mutated) bytes
	pub text_edits: Vec<(u16, u8, u8)>,
	pub label: u8,
	pub alg: u8,
	/// RFC 1421 style headers (name index, value index) inserted after the BEGIN line
	#[serde(default)]
	pub headers: Vec<(u8, u8)>,
}

fn base_bytes(b: &Base) -> Result<Vec<u8>, String> {
	Ok(match b {
		Base::Cert(c) => build_cert(c)?.cert.der().to_vec(),
		Base::ForeignCa(f) => crate::props::c17::forge_ca(f)?,
		Base::Csr(c) => build_csr(c)?.0.der().to_vec(),
		Base::ForeignCsr(f) => crate::props::c06::forge_foreign(f)?,
		Base::Key(alg, idx, legacy) => {
			let fx = keys::fixture(&KeySpec { alg: *alg, idx: *idx, rsa_hash: RsaHash::Sha256, remote: false });
			match (&fx.legacy, legacy) {
				(Some(l), true) => l.clone(),
				_ => fx.pk8.clone(),
			}
		},
		Base::Spki(k) => keys::fixture(k).spki.clone(),
		Base::Crl(c) => build_crl(c)?.map_err(|e| e.to_string())?.crl.der().to_vec(),
		Base::Random(h) => h.0.clone(),
		Base::OddCa(o) => forge_odd_ca(o)?,
		Base::OddKey(o) => forge_odd_key(o)?,
		Base::OddCsr(o) => forge_odd_csr(o)?,
	})
}

const LABELS: [&str; 8] = ["CERTIFICATE", "CERTIFICATE REQUEST", "PRIVATE KEY", "RSA PRIVATE KEY", "EC PRIVATE KEY", "PUBLIC KEY", "X509 CRL", "NEW CERTIFICATE REQUEST"];

#[cfg(feature = "crypto")]
fn sig_algs() -> Vec<&'static rcgen::SignatureAlgorithm> {
	crate::props::c11::algos().into_iter().map(|x| x.1).collect()
}

/// Set by the libFuzzer targets: their panic hook aborts before `catch_unwind` can classify a panic,
/// so inputs that would walk into a recorded known finding are excluded by construction there.
pub static SKIP_KNOWN_TRIGGERS: std::sync::atomic::AtomicBool = std::sync::atomic::AtomicBool::new(false);

/// Imported parameters that carry the K-IA5 trigger: non-ASCII text in a name-constraint
/// Rfc822Name / DnsName (the importer copies these from the certificate into plain `String`s).
fn imported_ia5_trigger(p: &rcgen::CertificateParams) -> bool {
	p.name_constraints.iter().any(|nc| {
		nc.permitted_subtrees.iter().chain(nc.excluded_subtrees.iter()).any(|s| match s {
			rcgen::GeneralSubtree::Rfc822Name(t) | rcgen::GeneralSubtree::DnsName(t) => !t.is_ascii(),
			_ => false,
		})
	})
}

/// Feeds one byte string (and one text) to every parsing entry point. A panic is the failure.
/// `known` collects the classes of recorded known findings that were hit (and tolerated).
pub fn feed_all(bytes: &[u8], text: &str, alg_idx: usize) -> Result<u32, String> {
	let mut known = Vec::new();
	feed_all_known(bytes, text, alg_idx, &mut known)
}

pub fn feed_all_known(bytes: &[u8], text: &str, alg_idx: usize, known: &mut Vec<&'static str>) -> Result<u32, String> {
	let mut accepted = 0u32;
	macro_rules! call {
		($what:expr, $e:expr) => {{
			match no_panic(|| $e) {
				Ok(r) => r,
				Err(p) => return Err(format!("{p} in {} on input {}", $what, if bytes.len() <= 400 { crate::der::hex(bytes) } else { format!("({} bytes)", bytes.len()) })),
			}
		}};
	}
	// CA certificate import, then generation from what was imported
	let r = call!("CertificateParams::from_ca_cert_der", rcgen::CertificateParams::from_ca_cert_der(&bytes.to_vec().into()));
	if let Ok(params) = r {
		accepted += 1;
		let key = keys::make_key(&KeySpec { alg: KeyAlg::Ed25519, idx: 0, rsa_hash: RsaHash::Sha256, remote: !cfg!(feature = "crypto") })?;
		if imported_ia5_trigger(&params) {
			// the recorded finding K-IA5, reached through import: confirm it here (tolerating only the
			// recorded panic), skip it under libFuzzer
			if !SKIP_KNOWN_TRIGGERS.load(std::sync::atomic::Ordering::Relaxed) {
				let p2 = params.clone();
				match no_panic(|| p2.self_signed(&key)) {
					Ok(_) => {},
					Err(p) => match findings::c10_known_class(TriggerClass::Ia5, &p) {
						Some(c) => known.push(c),
						None => return Err(format!("{p} in self_signed on imported CA parameters")),
					},
				}
			}
		} else {
			let p2 = params.clone();
			let _ = call!("self_signed on imported CA parameters", p2.self_signed(&key));
			let _ = call!("serialize_request on imported CA parameters", params.serialize_request(&key));
		}
	}
	let _ = call!("CertificateParams::from_ca_cert_pem", rcgen::CertificateParams::from_ca_cert_pem(text));
	// CSR parsing, then issuance
	let r = call!("CertificateSigningRequestParams::from_der", rcgen::CertificateSigningRequestParams::from_der(&bytes.to_vec().into()));
	if let Ok(p) = r {
		accepted += 1;
		let key = keys::make_key(&KeySpec { alg: KeyAlg::Ed25519, idx: 0, rsa_hash: RsaHash::Sha256, remote: !cfg!(feature = "crypto") })?;
		let mut ispec = CertSpec::minimal();
		ispec.is_ca = IsCaSpec::CaUnconstrained;
		ispec.kid = KidSpec::Pre(Hex(vec![1]));
		let issuer = mk::cert_params(&ispec)?.self_signed(&key).map_err(|e| e.to_string())?;
		let _ = call!("signed_by on a parsed CSR", p.signed_by(&issuer, &key));
	}
	let _ = call!("CertificateSigningRequestParams::from_pem", rcgen::CertificateSigningRequestParams::from_pem(text));
	// SubjectPublicKeyInfo
	let r = call!("SubjectPublicKeyInfo::from_der", rcgen::SubjectPublicKeyInfo::from_der(bytes));
	if r.is_ok() {
		accepted += 1;
	}
	let _ = call!("SubjectPublicKeyInfo::from_pem", rcgen::SubjectPublicKeyInfo::from_pem(text));
	// private keys
	#[cfg(feature = "crypto")]
	{
		use pki_types::{PrivateKeyDer, PrivatePkcs1KeyDer, PrivatePkcs8KeyDer, PrivateSec1KeyDer};
		let algs = sig_algs();
		let alg = algs[alg_idx % algs.len()];
		// whatever loads is then used to sign
		let mut loaded: Vec<rcgen::KeyPair> = Vec::new();
		if let Ok(k) = call!("KeyPair::try_from(&[u8])", rcgen::KeyPair::try_from(bytes)) {
			accepted += 1;
			loaded.push(k);
		}
		let _ = call!("KeyPair::try_from(Vec<u8>)", rcgen::KeyPair::try_from(bytes.to_vec()));
		let _ = call!("KeyPair::try_from(&PrivatePkcs8KeyDer)", rcgen::KeyPair::try_from(&PrivatePkcs8KeyDer::from(bytes.to_vec())));
		for k in [
			PrivateKeyDer::Pkcs8(PrivatePkcs8KeyDer::from(bytes.to_vec())),
			PrivateKeyDer::Sec1(PrivateSec1KeyDer::from(bytes.to_vec())),
			PrivateKeyDer::Pkcs1(PrivatePkcs1KeyDer::from(bytes.to_vec())),
		] {
			if let Ok(kp) = call!("KeyPair::try_from(&PrivateKeyDer)", rcgen::KeyPair::try_from(&k)) {
				if loaded.len() < 2 {
					loaded.push(kp);
				}
			}
			if let Ok(kp) = call!("KeyPair::from_der_and_sign_algo", rcgen::KeyPair::from_der_and_sign_algo(&k, alg)) {
				if loaded.len() < 3 {
					loaded.push(kp);
				}
			}
		}
		for kp in &loaded {
			let _ = call!("serialize_request with a loaded key", rcgen::CertificateParams::default().serialize_request(kp));
			let _ = call!("public_key_der of a loaded key", Ok::<_, rcgen::Error>(kp.public_key_der()));
			let _ = call!("serialize_pem of a loaded key", Ok::<_, rcgen::Error>(kp.serialize_pem()));
		}
		let _ = call!("KeyPair::from_pkcs8_der_and_sign_algo", rcgen::KeyPair::from_pkcs8_der_and_sign_algo(&PrivatePkcs8KeyDer::from(bytes.to_vec()), alg));
		let _ = call!("KeyPair::from_pem", rcgen::KeyPair::from_pem(text));
		let _ = call!("KeyPair::from_pkcs8_pem_and_sign_algo", rcgen::KeyPair::from_pkcs8_pem_and_sign_algo(text, alg));
		let _ = call!("KeyPair::from_pem_and_sign_algo", rcgen::KeyPair::from_pem_and_sign_algo(text, alg));
	}
	let _ = alg_idx;
	// string constructors and small parsers
	let _ = call!("BmpString::from_utf16be", rcgen::string::BmpString::from_utf16be(bytes.to_vec()));
	let _ = call!("UniversalString::from_utf32be", rcgen::string::UniversalString::from_utf32be(bytes.to_vec()));
	let lossy = String::from_utf8_lossy(&bytes[..bytes.len().min(64)]).to_string();
	for s in [lossy.as_str(), &text[..text.char_indices().nth(40).map_or(text.len(), |x| x.0)]] {
		let _ = call!("PrintableString::try_from", rcgen::string::PrintableString::try_from(s));
		let _ = call!("Ia5String::try_from", rcgen::string::Ia5String::try_from(s));
		let _ = call!("TeletexString::try_from", rcgen::string::TeletexString::try_from(s));
		let _ = call!("BmpString::try_from", rcgen::string::BmpString::try_from(s));
		let _ = call!("UniversalString::try_from", rcgen::string::UniversalString::try_from(s));
		let _ = call!("CidrSubnet::from_str", rcgen::CidrSubnet::from_str(s));
		let _ = call!("CertificateParams::new", rcgen::CertificateParams::new(vec![s.to_string(), "x".into()]));
	}
	Ok(accepted)
}

pub fn check_bytes(c: &BytesCase, info: &mut CaseInfo) -> Result<(), String> {
	let base = base_bytes(&c.base)?;
	info.class(format!("base:{}", match &c.base {
		Base::Cert(_) => "cert",
		Base::ForeignCa(_) => "foreign-ca",
		Base::Csr(_) => "csr",
		Base::ForeignCsr(_) => "foreign-csr",
		Base::Key(_, _, false) => "key-pkcs8",
		Base::Key(_, _, true) => "key-legacy",
		Base::Spki(_) => "spki",
		Base::Crl(_) => "crl",
		Base::Random(_) => "random",
		Base::OddCa(_) => "odd-ca",
		Base::OddKey(k) if k.form % 4 == 0 => "odd-spki",
		Base::OddKey(_) => "odd-pkcs8",
		Base::OddCsr(_) => "odd-csr",
	}));
	let mut bytes = base.clone();
	let n = bytes.len();
	let regions = [(0, n), (0, n.min(24)), (n / 3, n), (n.saturating_sub(80), n)];
	for m in &c.mutations {
		let r = [(0, bytes.len()), (0, bytes.len().min(24)), (bytes.len() / 3, bytes.len()), (bytes.len().saturating_sub(80), bytes.len())];
		let _ = regions;
		if bytes.is_empty() {
			break;
		}
		bytes = apply_mutation(&bytes, m, &r);
	}
	let mut text = pemstrict::encode(LABELS[c.label as usize % LABELS.len()], &bytes);
	if !c.headers.is_empty() {
		const NAMES: [&str; 6] = ["Proc-Type", "DEK-Info", "Comment", "X-Custom", "", "proc-type"];
		const VALUES: [&str; 9] = ["4,ENCRYPTED", "4", "ENCRYPTED", "", ",", "AES-128-CBC,00", "a,b,c", "4,", " "];
		let mut h = String::new();
		for (n, v) in &c.headers {
			h.push_str(&format!("{}: {}\n", NAMES[*n as usize % NAMES.len()], VALUES[*v as usize % VALUES.len()]));
		}
		h.push('\n');
		let at = text.find('\n').map_or(0, |i| i + 1);
		text.insert_str(at, &h);
	}
	let mut text = text.into_bytes();
	for (pos, val, kind) in &c.text_edits {
		if text.is_empty() {
			break;
		}
		let i = (*pos as usize * text.len()) >> 16;
		match kind % 4 {
			0 => text[i] = *val,
			1 => text.insert(i, b"\n\r -=:A"[*val as usize % 7]),
			2 => {
				text.remove(i);
			},
			_ => text.truncate(i),
		}
	}
	let text = String::from_utf8_lossy(&text).to_string();
	let mut known = Vec::new();
	let accepted = feed_all_known(&bytes, &text, c.alg as usize, &mut known)?;
	for k in known {
		info.class(format!("known:{k}"));
	}
	// non-trivial: still parses as one outer element (gets past the first length check)
	let l = Lints::new();
	info.nontrivial = !c.mutations.is_empty() && crate::der::read_tlv(&bytes, &l).map_or(false, |(t, rest)| rest.is_empty() && t.constructed);
	if accepted > 0 {
		info.class("accepted-by-some-parser");
	}
	Ok(())
}

fn bytes_case() -> BoxedStrategy<BytesCase> {
	let key_base = (gen::key_alg(), any::<u8>(), any::<bool>()).prop_map(|(a, i, l)| Base::Key(a, i, l));
	let base = prop_oneof![
		3 => cert_case(CertGenOpts::FULL, true).prop_map(Base::Cert),
		2 => crate::props::c17::foreign_ca().prop_map(Base::ForeignCa),
		2 => csr_case(true).prop_map(Base::Csr),
		2 => crate::props::c06::foreign_csr_strategy().prop_map(Base::ForeignCsr),
		3 => key_base,
		1 => gen::key_spec().prop_map(Base::Spki),
		1 => crl_case(false, true).prop_map(Base::Crl),
		1 => proptest::collection::vec(any::<u8>(), 0..200).prop_map(|b| Base::Random(Hex(b))),
		4 => odd_ca().prop_map(Base::OddCa),
		3 => odd_key().prop_map(Base::OddKey),
		3 => odd_ca().prop_map(Base::OddCsr),
	];
	(
		base,
		proptest::collection::vec(mutation(), 0..4),
		proptest::collection::vec((any::<u16>(), any::<u8>(), any::<u8>()), 0..3),
		any::<u8>(),
		any::<u8>(),
		prop_oneof![4 => Just(vec![]), 1 => proptest::collection::vec((any::<u8>(), any::<u8>()), 1..3)],
	)
		.prop_map(|(base, mutations, text_edits, label, alg, headers)| BytesCase { base, mutations, text_edits, label, alg, headers })
		.boxed()
}

// ---------------------------------------------------------------------------------------------
// parameters

#[derive(Clone, Copy, Debug, Serialize, Deserialize, PartialEq, Eq, Hash)]
pub enum TriggerClass {
	/// non-ASCII text in a field typed as plain `String` that is written as IA5String
	Ia5,
	/// OID component list that is not a well-formed OID
	Oid,
	/// UTC year outside 0..=9999
	Year,
}

#[derive(Clone, Debug, Serialize, Deserialize, PartialEq, Eq, Hash)]
pub struct Trigger {
	pub class: TriggerClass,
	pub site: u8,
	pub text: String,
	pub oid: Vec<u64>,
	pub time: TimeSpec,
}

#[derive(Clone, Debug, Serialize, Deserialize, PartialEq, Eq, Hash)]
pub enum Target {
	Cert(CertCase),
	Csr(CsrCase),
	Crl(CrlCase),
}

#[derive(Clone, Debug, Serialize, Deserialize, PartialEq, Eq, Hash)]
pub struct ParamCase {
	pub target: Target,
	/// harmless oddities: empty lists, huge serials, empty key ids, raw CIDR masks ...
	pub oddities: Vec<u8>,
	pub trigger: Option<Trigger>,
}

/// Malformed `&'static` OIDs for `Attribute::oid`.
const BAD_STATIC_OIDS: [&[u64]; 5] = [&[], &[1], &[3, 1], &[1, 40], &[0, 40, 5]];

pub fn oid_is_wellformed(o: &[u64]) -> bool {
	o.len() >= 2 && o[0] < 3 && (o[0] == 2 || o[1] < 40) && o[1] < 18446744073709551535
}

fn apply_oddity(t: &mut Target, o: u8) {
	match t {
		Target::Cert(c) => match o % 10 {
			0 => c.spec.serial = Some(Hex(vec![0xff; 300])),
			1 => c.spec.serial = Some(Hex(vec![])),
			2 => c.spec.kid = KidSpec::Pre(Hex(vec![])),
			3 => c.spec.kid = KidSpec::Pre(Hex(vec![7; 500])),
			4 => c.spec.crl_dps.push(vec![]),
			5 => c.spec.name_constraints = Some(NcSpec::default()),
			6 => c.spec.custom_exts.push(CustomExtSpec { oid: vec![2, 5, 29, 15], critical: true, content: Hex(vec![]), acme: false }),
			7 => c.spec.dn = DnSpec(vec![]),
			8 => c.spec.sans.push(SanSpec::Dns(String::new())),
			_ => c.spec.custom_exts.push(CustomExtSpec { oid: vec![1, 2, 3], critical: false, content: Hex(vec![0xff; 70000]), acme: false }),
		},
		Target::Csr(c) => match o % 4 {
			0 => c.attrs.push(AttrSpec { oid_idx: 1, values: Hex(vec![]) }),
			1 => c.attrs.push(AttrSpec { oid_idx: 2, values: Hex(vec![0x31, 0x80]) }),
			2 => c.spec.dn = DnSpec(vec![]),
			_ => c.spec.custom_exts.push(CustomExtSpec { oid: vec![2, 5, 29, 17], critical: false, content: Hex(vec![1, 2, 3]), acme: false }),
		},
		Target::Crl(c) => match o % 5 {
			0 => c.crl.crl_number = Hex(vec![]),
			1 => c.crl.crl_number = Hex(vec![0xff; 300]),
			2 => c.crl.idp = Some(IdpSpec { uris: vec![], scope: Some(ScopeSpec::Ca) }),
			3 => c.crl.kid = KidSpec::Pre(Hex(vec![])),
			_ => {
				if let Some(r) = c.crl.revoked.first_mut() {
					r.serial = Hex(vec![])
				}
			},
		},
	}
}

/// Installs exactly one trigger at a site of the target; returns a static OID index for CSR attributes.
fn apply_trigger(t: &mut Target, g: &Trigger) -> Option<usize> {
	let mut bad_attr = None;
	match (t, g.class) {
		(Target::Cert(c), TriggerClass::Ia5) => match g.site % 3 {
			0 => c.spec.crl_dps.push(vec![g.text.clone()]),
			1 => c.spec.name_constraints.get_or_insert_with(NcSpec::default).permitted.push(SubtreeSpec::Dns(g.text.clone())),
			_ => c.spec.name_constraints.get_or_insert_with(NcSpec::default).excluded.push(SubtreeSpec::Rfc822(g.text.clone())),
		},
		(Target::Cert(c), TriggerClass::Oid) => match g.site % 4 {
			0 => c.spec.custom_exts.push(CustomExtSpec { oid: g.oid.clone(), critical: false, content: Hex(vec![5, 0]), acme: false }),
			1 => c.spec.ekus.push(EkuSpec::Other(g.oid.clone())),
			2 => c.spec.dn.0.push((DnTypeSpec::Custom(g.oid.clone()), DnValueSpec::new(StrKind::Utf8, "x"))),
			_ => c.spec.sans.push(SanSpec::OtherName(g.oid.clone(), "x".into())),
		},
		(Target::Cert(c), TriggerClass::Year) => {
			if g.site % 2 == 0 {
				c.spec.not_before = g.time
			} else {
				c.spec.not_after = g.time
			}
		},
		(Target::Csr(c), TriggerClass::Oid) => match g.site % 5 {
			0 => c.spec.custom_exts.push(CustomExtSpec { oid: g.oid.clone(), critical: false, content: Hex(vec![5, 0]), acme: false }),
			1 => c.spec.ekus.push(EkuSpec::Other(g.oid.clone())),
			2 => c.spec.dn.0.push((DnTypeSpec::Custom(g.oid.clone()), DnValueSpec::new(StrKind::Utf8, "x"))),
			3 => c.spec.sans.push(SanSpec::OtherName(g.oid.clone(), "x".into())),
			_ => bad_attr = Some(g.site as usize % BAD_STATIC_OIDS.len()),
		},
		// a CSR has no IA5-typed plain String field and no time field: those triggers do not apply
		(Target::Csr(_), _) => {},
		(Target::Crl(c), TriggerClass::Ia5) => match g.site % 2 {
			0 => c.crl.idp = Some(IdpSpec { uris: vec![g.text.clone()], scope: None }),
			_ => c.issuer.spec.crl_dps.push(vec![g.text.clone()]),
		},
		(Target::Crl(c), TriggerClass::Oid) => c.issuer.spec.dn.0.push((DnTypeSpec::Custom(g.oid.clone()), DnValueSpec::new(StrKind::Utf8, "x"))),
		(Target::Crl(c), TriggerClass::Year) => match g.site % 4 {
			0 => c.crl.this_update = g.time,
			1 => c.crl.next_update = g.time,
			2 => c.crl.revoked.push(RevokedSpec { serial: Hex(vec![1]), revocation_time: g.time, reason: None, invalidity_date: None }),
			_ => c.crl.revoked.push(RevokedSpec { serial: Hex(vec![1]), revocation_time: c.crl.this_update, reason: None, invalidity_date: Some(g.time) }),
		},
	}
	bad_attr
}

fn run_target(t: &Target, bad_attr: Option<usize>) -> Result<Result<(), String>, String> {
	// Ok(Ok) = returned Ok/Err; Ok(Err(msg)) = panicked with msg; Err = harness problem
	let r = no_panic(|| -> Result<(), String> {
		match t {
			Target::Cert(c) => {
				// the trait impls on the parameter types are API too: render what a caller would print
				if let Ok(p) = mk::cert_params(&c.spec) {
					let _ = format!("{p:?}");
					if let Some(s) = &p.serial_number {
						let _ = format!("{s} {s:?} {} {:?}", s.len(), s.to_bytes());
					}
					for (t, v) in p.distinguished_name.iter() {
						let _ = format!("{t:?}={v:?}");
					}
					for x in &p.custom_extensions {
						let _ = format!("{:?} {} {:?}", x.oid_components().collect::<Vec<_>>(), x.criticality(), x.content().len());
					}
					let _ = p.clone() == p;
				}
				if let Ok(b) = build_cert(c) {
					let _ = format!("{:?} {:?}", b.cert, b.cert.key_identifier());
					let _ = b.cert.pem();
				}
			},
			Target::Csr(c) => {
				let params = match mk::cert_params(&c.spec) {
					Ok(p) => p,
					Err(_) => return Ok(()),
				};
				let key = keys::make_key(&c.key)?;
				let mut attrs: Vec<rcgen::Attribute> = c.attrs.iter().map(mk::attribute).collect();
				if let Some(i) = bad_attr {
					attrs.push(rcgen::Attribute { oid: BAD_STATIC_OIDS[i], values: vec![0x31, 0x00] });
				}
				// now and then the caller supplies an extensionRequest attribute of their own (next to, or
				// instead of, the one the parameters give rise to)
				if c.attrs.len() % 3 == 1 {
					const EXT_REQ: &[u64] = &[1, 2, 840, 113549, 1, 9, 14];
					let ext = crate::forge::enc_ext(&[1, 3, 6, 1, 4, 1, 55555, 3], false, &[0x05, 0x00]);
					let at = c.attrs.len() / 2;
					attrs.insert(at.min(attrs.len()), rcgen::Attribute { oid: EXT_REQ, values: crate::der::enc_tlv(0x31, &crate::der::enc_seq(&[ext])) });
				}
				let _ = params.serialize_request_with_attributes(&key, attrs);
			},
			Target::Crl(c) => {
				if let Ok(p) = mk::crl_params(&c.crl) {
					let _ = format!("{p:?} {} {}", p.crl_number, p.crl_number.len());
					for r in &p.revoked_certs {
						let _ = format!("{} {:?}", r.serial_number, r.serial_number.to_bytes());
					}
				}
				if let Ok(Ok(b)) = build_crl(c) {
					let _ = format!("{:?}", b.crl);
					let _ = b.crl.pem();
				}
			},
		}
		Ok(())
	});
	match r {
		Ok(Ok(())) => Ok(Ok(())),
		Ok(Err(e)) => Err(e),
		Err(p) => Ok(Err(p)),
	}
}

pub fn check_params(case: &ParamCase, info: &mut CaseInfo) -> Result<(), String> {
	let mut t = case.target.clone();
	for o in &case.oddities {
		apply_oddity(&mut t, *o);
	}
	let bad_attr = case.trigger.as_ref().and_then(|g| apply_trigger(&mut t, g));
	info.nontrivial = true;
	info.class(match &t {
		Target::Cert(_) => "target:cert",
		Target::Csr(_) => "target:csr",
		Target::Crl(_) => "target:crl",
	});
	let outcome = run_target(&t, bad_attr)?;
	match (&case.trigger, outcome) {
		(_, Ok(())) => {
			info.class(if case.trigger.is_some() { "trigger:returned" } else { "clean:returned" });
			Ok(())
		},
		(Some(g), Err(panic_msg)) => {
			// a recorded known finding only if the panic is the recorded one for this class
			if let Some(class) = findings::c10_known_class(g.class, &panic_msg) {
				info.class(format!("known:{class}"));
				Ok(())
			} else {
				Err(format!("{panic_msg} (parameters carry a {:?} trigger, but this is not the recorded panic for it)", g.class))
			}
		},
		(None, Err(panic_msg)) => Err(format!("{panic_msg} with parameters built from safe public constructors and fields")),
	}
}

fn dirty_text() -> impl Strategy<Value = String> {
	prop_oneof![
		"[a-z]{0,5}[\\u{80}-\\u{ff}][a-z]{0,5}",
		gen::text_for(StrKind::Utf8, 8).prop_map(|mut s| {
			s.push('é');
			s
		}),
		Just("http://exämple.com/crl".to_string()),
		Just("\u{10ffff}".to_string()),
		// long values: the offending character sits around the 64/128/256/512/1024-byte marks
		(prop::sample::select(vec![60usize, 124, 252, 508, 1020]), 0usize..8, prop::sample::select(vec!['é', 'ß', '中', '\u{80}', '😀']), "[a-z]{0,4}")
			.prop_map(|(n, d, c, tail)| format!("{}{c}{c}{tail}", "a".repeat(n + d))),
	]
}

fn dirty_oid() -> impl Strategy<Value = Vec<u64>> {
	prop_oneof![
		Just(vec![]),
		any::<u64>().prop_map(|a| vec![a % 3]),
		(3u64..1000, any::<u64>()).prop_map(|(a, b)| vec![a, b]),
		(0u64..2, 40u64..100000, proptest::collection::vec(any::<u64>(), 0..3)).prop_map(|(a, b, r)| {
			let mut v = vec![a, b];
			v.extend(r);
			v
		}),
		Just(vec![2, u64::MAX]),
		Just(vec![2, 18446744073709551535]),
		Just(vec![u64::MAX, u64::MAX, u64::MAX]),
	]
	.prop_filter("must be malformed", |o| !oid_is_wellformed(o))
}

/// Times whose UTC year is outside 0..=9999 but which the `time` type can represent.
fn dirty_time() -> impl Strategy<Value = TimeSpec> {
	const MIN: i64 = -377705116800; // -9999-01-01T00:00:00Z
	prop_oneof![
		// UTC year negative
		(MIN + 100_000..gen::Y0_START, gen::nanos(), -80_000i32..80_000).prop_map(|(unix, nanos, offset)| TimeSpec { unix, nanos, offset }),
		// local year 9999 at a negative offset: UTC year 10000
		(1i64..90_000, 1i32..=gen::MAX_OFFSET).prop_map(|(d, off)| {
			let d = d.min(off as i64);
			TimeSpec { unix: gen::Y9999_END + d, nanos: 0, offset: -off }
		}),
		Just(TimeSpec { unix: gen::Y0_START - 1, nanos: 999_999_999, offset: 0 }),
	]
}

fn param_case() -> BoxedStrategy<ParamCase> {
	let target = prop_oneof![
		3 => cert_case(CertGenOpts::FULL, true).prop_map(Target::Cert),
		2 => csr_case(true).prop_map(Target::Csr),
		2 => crl_case(false, true).prop_map(Target::Crl),
	];
	let trigger = (
		prop::sample::select(vec![TriggerClass::Ia5, TriggerClass::Oid, TriggerClass::Year]),
		any::<u8>(),
		dirty_text(),
		dirty_oid(),
		dirty_time(),
	)
		.prop_map(|(class, site, text, oid, time)| Trigger { class, site, text, oid, time });
	(target, proptest::collection::vec(any::<u8>(), 0..3), prop::option::weighted(0.12, trigger))
		.prop_map(|(target, oddities, trigger)| ParamCase { target, oddities, trigger })
		.boxed()
}

pub fn def() -> PropertyDef {
	PropertyDef {
		id: "C10",
		rule: "Bytes: valid artefacts (rcgen certificates/CSRs/CRLs, OpenSSL-signed foreign CA certificates and CSRs, PKCS#8 / SEC1 / PKCS#1 fixture keys, SPKIs) and random strings, 0..3 structured mutations (flip, overwrite, insert, delete, truncate, run, splice), wrapped as PEM under 8 labels with 0..2 text edits, fed to every parsing entry point (CA import DER/PEM, CSR DER/PEM, 9 key loaders x algorithm, SPKI DER/PEM, from_utf16be/from_utf32be, the five TryFrom<&str>, CidrSubnet::from_str, CertificateParams::new); whatever a parser accepts is then used for generation (self_signed / serialize_request / signed_by). Parameters: the full space of the valid-domain generators plus oddities (empty lists, 300-byte serials, empty key ids, 70 kB custom content, duplicated standard OIDs) in 88 % clean cases, and 12 % cases carrying exactly one trigger of a recorded known-finding class at a generated site. Oracle: catch_unwind - Ok or Err passes, a panic is a violation unless it is the recorded panic of the trigger's class. Non-trivial = mutant that still spans one outer constructed element; every parameter case.",
		assumptions: vec!["non-termination is caught by the watchdog (exit 2), not by the oracle", "the three documented panics (ACME digest length, serialising a remote key, impossible calendar date) are never generated"],
		subs: vec![
			prop_sub("bytes", 160_000, 2_000_000, bytes_case, check_bytes),
			prop_sub("params", 80_000, 1_500_000, param_case, check_params),
		],
	}
}
