//! C17 — importing a CA certificate recovers the fields it claims to recover.

use std::collections::BTreeSet;

use proptest::prelude::*;
use serde::{Deserialize, Serialize};

use crate::forge::{self, FDigest, FName};
use crate::gen::{self, CertGenOpts};
use crate::keys;
use crate::mk;
use crate::model;
use crate::props::c07::dn_pairs;
use crate::props::common::*;
use crate::runner::*;
use crate::spec::*;
use crate::x509::{self, ExtValue};

pub const IMPORT_OPTS: CertGenOpts = CertGenOpts {
	moderate_oids: true,
	dirname_subtrees: true,
	plain_times: false,
	standard_ekus: false,
	same_oid_dn: false,
	conformant: false,
};

/// Compares imported parameters with the parameters (`want`) the certificate was made from.
/// `ski`: the subject key identifier the certificate carries, if any. `serial`: the serial the
/// certificate carries (integer magnitude).
fn compare_import(
	imported: &rcgen::CertificateParams,
	want: &rcgen::CertificateParams,
	spec: &CertSpec,
	ski: Option<&[u8]>,
	serial_mag: &[u8],
) -> Result<(), String> {
	if dn_pairs(&imported.distinguished_name) != dn_pairs(&want.distinguished_name) {
		return Err(format!(
			"subject name differs after import: {:?} vs original {:?}",
			dn_pairs(&imported.distinguished_name),
			dn_pairs(&want.distinguished_name)
		));
	}
	if imported.is_ca != want.is_ca {
		return Err(format!("is_ca {:?} after import, original {:?}", imported.is_ca, want.is_ca));
	}
	let ku = |v: &Vec<rcgen::KeyUsagePurpose>| v.iter().map(mk::ku_index).collect::<BTreeSet<_>>();
	if ku(&imported.key_usages) != ku(&want.key_usages) {
		return Err(format!("key usages {:?} after import, original {:?}", imported.key_usages, want.key_usages));
	}
	let std_eku = |v: &Vec<rcgen::ExtendedKeyUsagePurpose>| {
		v.iter().map(mk::eku_spec).filter(|e| e.is_standard()).map(|e| e.oid()).collect::<BTreeSet<_>>()
	};
	if std_eku(&imported.extended_key_usages) != std_eku(&want.extended_key_usages) {
		return Err(format!(
			"standard extended key usages {:?} after import, original {:?}",
			imported.extended_key_usages, want.extended_key_usages
		));
	}
	if imported.subject_alt_names != want.subject_alt_names {
		return Err(format!("subject alternative names {:?} after import, original {:?}", imported.subject_alt_names, want.subject_alt_names));
	}
	let nonempty = |nc: &Option<rcgen::NameConstraints>| match nc {
		Some(n) if !(n.permitted_subtrees.is_empty() && n.excluded_subtrees.is_empty()) => Some(n.clone()),
		_ => None,
	};
	match (nonempty(&imported.name_constraints), nonempty(&want.name_constraints)) {
		(None, None) => {},
		(Some(a), Some(b)) => {
			let subtree_key = |s: &rcgen::GeneralSubtree| match s {
				rcgen::GeneralSubtree::DirectoryName(d) => format!("dir:{:?}", dn_pairs(d)),
				other => format!("{other:?}"),
			};
			let k = |v: &Vec<rcgen::GeneralSubtree>| v.iter().map(subtree_key).collect::<Vec<_>>();
			if k(&a.permitted_subtrees) != k(&b.permitted_subtrees) || k(&a.excluded_subtrees) != k(&b.excluded_subtrees) {
				return Err(format!("name constraints {:?} after import, original {:?}", a, b));
			}
		},
		(a, b) => return Err(format!("name constraints {:?} after import, original {:?}", a, b)),
	}
	let got_serial = imported.serial_number.as_ref().map(|s| model::strip_zeros(s.as_ref()));
	if got_serial.as_deref() != Some(serial_mag) {
		return Err(format!("serial {:?} after import, certificate carries {}", got_serial.map(|s| crate::der::hex(&s)), crate::der::hex(serial_mag)));
	}
	for (name, got, w) in [("not_before", imported.not_before, &spec.not_before), ("not_after", imported.not_after, &spec.not_after)] {
		if got.unix_timestamp() != w.unix || got.nanosecond() != 0 {
			return Err(format!("{name} is {} after import, original instant {} (truncated to seconds)", got.unix_timestamp(), w.unix));
		}
	}
	if let Some(ski) = ski {
		if imported.key_identifier_method != rcgen::KeyIdMethod::PreSpecified(ski.to_vec()) {
			return Err(format!(
				"key_identifier_method {:?} after import, but the certificate carries SKI {}",
				imported.key_identifier_method,
				crate::der::hex(ski)
			));
		}
	}
	Ok(())
}

fn ski_of(c: &x509::Cert) -> Option<Vec<u8>> {
	x509::find_ext(&c.extensions, x509::OID_SKI).first().and_then(|e| match &e.value {
		ExtValue::Ski(s) => Some(s.clone()),
		_ => None,
	})
}

/// Replaces the last arc of the custom attribute types and otherName type-ids of `spec` (subject,
/// alternative names, directoryName subtrees) by arcs from the whole u64 range, boundaries of the
/// base-128 encoding included.
pub fn widen_arcs(spec: &mut CertSpec, wide: &[u64]) {
	if wide.is_empty() {
		return;
	}
	let mut i = 0usize;
	let mut next = || {
		i += 1;
		wide[(i - 1) % wide.len()]
	};
	let mut widen_dn = |dn: &mut DnSpec, next: &mut dyn FnMut() -> u64| {
		// an attribute type appears at most once in an imported name: keep custom types distinct
		let mut seen: BTreeSet<Vec<u64>> = dn.0.iter().map(|(t, _)| t.oid()).collect();
		for (t, _) in dn.0.iter_mut() {
			if let DnTypeSpec::Custom(v) = t {
				let mut w = v.clone();
				if w.len() > 2 {
					*w.last_mut().unwrap() = next();
					if seen.insert(w.clone()) {
						*v = w;
					}
				}
			}
		}
	};
	widen_dn(&mut spec.dn, &mut next);
	for s in spec.sans.iter_mut() {
		if let SanSpec::OtherName(oid, _) = s {
			if oid.len() > 2 {
				*oid.last_mut().unwrap() = next();
			}
		}
	}
	if let Some(nc) = spec.name_constraints.as_mut() {
		for st in nc.permitted.iter_mut().chain(nc.excluded.iter_mut()) {
			if let SubtreeSpec::DirName(d) = st {
				widen_dn(d, &mut next);
			}
		}
	}
}

pub fn wide_arc() -> impl Strategy<Value = u64> {
	prop_oneof![
		3 => prop::sample::select(vec![(1u64 << 56) - 1, 1 << 56, (1 << 57) - 1, 1 << 57, (1 << 62) + 5, (1 << 63) - 1, 1 << 63, (1 << 63) + 1, u64::MAX - 1, u64::MAX]),
		2 => any::<u64>(),
		1 => (32u32..64).prop_map(|b| 1u64 << b),
	]
}

fn generated_case() -> BoxedStrategy<CertCase> {
	(cert_case(IMPORT_OPTS, true), prop_oneof![3 => Just(vec![]), 1 => proptest::collection::vec(wide_arc(), 1..4)])
		.prop_map(|(mut c, wide)| {
			widen_arcs(&mut c.spec, &wide);
			c
		})
		.boxed()
}

fn has_wide_arc(spec: &CertSpec) -> bool {
	let dn_wide = |d: &DnSpec| d.0.iter().any(|(t, _)| t.oid().iter().any(|a| *a >= 1 << 32));
	dn_wide(&spec.dn)
		|| spec.sans.iter().any(|s| matches!(s, SanSpec::OtherName(o, _) if o.iter().any(|a| *a >= 1 << 32)))
		|| spec.name_constraints.as_ref().map_or(false, |nc| nc.permitted.iter().chain(nc.excluded.iter()).any(|s| matches!(s, SubtreeSpec::DirName(d) if dn_wide(d))))
}

pub fn check_generated(case: &CertCase, info: &mut CaseInfo) -> Result<(), String> {
	if has_wide_arc(&case.spec) {
		info.class("oid-arc>=2^32");
	}
	let fields = case.spec.ext_fields_set();
	info.nontrivial = fields.len() >= 2;
	info.class(format!("sparsity:{}", gen::sparsity_class(&case.spec)));
	info.class(if case.issuer.is_some() { "issuer-signed" } else { "self-signed" });
	let built = build_cert(case)?;
	let (c, _) = decode_cert(built.cert.der())?;
	let imported = rcgen::CertificateParams::from_ca_cert_der(built.cert.der())
		.map_err(|e| format!("from_ca_cert_der refuses a certificate rcgen generated: {e}"))?;
	let ski = ski_of(&c);
	let serial_mag = crate::der::uint_magnitude(&c.serial).ok_or("negative serial")?;
	compare_import(&imported, &built.input_params, &case.spec, ski.as_deref(), &serial_mag)?;
	// PEM and DER import agree
	let from_pem = rcgen::CertificateParams::from_ca_cert_pem(&built.cert.pem()).map_err(|e| format!("from_ca_cert_pem: {e}"))?;
	if from_pem != imported {
		return Err("from_ca_cert_pem and from_ca_cert_der return different parameters".into());
	}
	// re-issuing from the imported parameters with the same key reproduces those fields
	if case.issuer.is_none() {
		let re = imported.clone().self_signed(&built.subject_key).map_err(|e| format!("re-issuing from imported parameters failed: {e}"))?;
		let (r, _) = decode_cert(re.der())?;
		if r.subject.raw != c.subject.raw {
			return Err("re-issued certificate has a different subject encoding".into());
		}
		if crate::der::uint_magnitude(&r.serial) != crate::der::uint_magnitude(&c.serial) {
			return Err("re-issued certificate has a different serial".into());
		}
		if r.not_before.unix != c.not_before.unix || r.not_after.unix != c.not_after.unix {
			return Err("re-issued certificate has a different validity".into());
		}
		for oid in [x509::OID_BC, x509::OID_KU, x509::OID_SAN, x509::OID_NC, x509::OID_SKI] {
			let a: Vec<&Vec<u8>> = x509::find_ext(&c.extensions, oid).iter().map(|e| &e.value_raw).collect();
			let b: Vec<&Vec<u8>> = x509::find_ext(&r.extensions, oid).iter().map(|e| &e.value_raw).collect();
			if a != b {
				return Err(format!("re-issued certificate differs in extension {:?}", oid));
			}
		}
		let std_only = |exts: &Option<Vec<x509::Ext>>| -> BTreeSet<Vec<u64>> {
			x509::find_ext(exts, x509::OID_EKU)
				.iter()
				.flat_map(|e| match &e.value {
					ExtValue::Eku(v) => v.clone(),
					_ => vec![],
				})
				.filter(|o| o.starts_with(&[1, 3, 6, 1, 5, 5, 7, 3]) || o == &[2, 5, 29, 37, 0])
				.collect()
		};
		if std_only(&c.extensions) != std_only(&r.extensions) {
			return Err("re-issued certificate differs in its standard extended key usages".into());
		}
	}
	Ok(())
}

/// A CA certificate assembled by the harness and signed with OpenSSL.
#[derive(Clone, Debug, Serialize, Deserialize, PartialEq, Eq, Hash)]
pub struct ForeignCa {
	pub spec: CertSpec,
	pub key: KeySpec,
	pub ski: Option<Hex>,
	pub digest: FDigest,
	/// a name-constraint subtree of a kind rcgen has no variant for (in the excluded list?, position,
	/// kind), which import skips: the supported subtrees around it must all come through
	#[serde(default)]
	pub nc_odd: Option<(bool, u8, u8)>,
}

pub fn foreign_ca() -> BoxedStrategy<ForeignCa> {
	(
		gen::cert_spec(IMPORT_OPTS),
		validator_key(),
		prop::option::weighted(0.8, proptest::collection::vec(any::<u8>(), 1..24).prop_map(Hex)),
		prop::sample::select(vec![FDigest::Sha256, FDigest::Sha384, FDigest::Sha512]),
		gen::conformant_serial(),
		prop::option::weighted(0.3, (any::<bool>(), any::<u8>(), 0u8..5)),
	)
		.prop_map(|(mut spec, key, ski, digest, serial, nc_odd)| {
			spec.serial = Some(serial);
			spec.crl_dps.clear();
			spec.use_aki = false;
			spec.custom_exts.retain(|c| !c.critical);
			spec.ekus.retain(|e| e.is_standard());
			ForeignCa { spec, key, ski, digest, nc_odd }
		})
		.boxed()
}

pub fn forge_ca(f: &ForeignCa) -> Result<Vec<u8>, String> {
	forge_ca_with(f, 0)
}

/// `flip`: bit i set = the criticality of the i-th extension is the opposite of what the profile
/// (and the harness encoder) would choose. Foreign CAs are not bound by rcgen's choices.
pub fn forge_ca_with(f: &ForeignCa, flip: u16) -> Result<Vec<u8>, String> {
	let name = FName::from_dn(&f.spec.dn);
	let mut exts = forge::spec_extensions(&f.spec, f.ski.as_ref().map(|h| h.0.as_slice()), None);
	if let Some((in_excluded, pos, kind)) = f.nc_odd {
		use crate::der::{children, enc_oid, enc_seq, enc_tlv, read_single, Lints};
		let odd_base = match kind % 5 {
			0 => enc_tlv(0x86, b".example.com"),                                                       // URI
			1 => enc_tlv(0x88, &[0x2a, 0x03, 0x04]),                                                  // registeredID
			2 => enc_tlv(0xa0, &[enc_oid(&[1, 3, 6, 1, 4, 1, 311, 20, 2, 3]), enc_tlv(0xa0, &enc_tlv(0x0c, b"upn"))].concat()), // otherName
			3 => enc_tlv(0x87, &[10, 0, 0, 0, 255]),                                                  // iPAddress of odd length
			_ => enc_tlv(0xa5, &enc_tlv(0xa1, &enc_tlv(0x0c, b"party"))),                             // ediPartyName
		};
		let odd = enc_seq(&[odd_base]);
		for e in exts.iter_mut() {
			if !e.windows(5).any(|w| w == [0x06, 0x03, 0x55, 0x1d, 0x1e]) {
				continue;
			}
			let l = Lints::new();
			let t = read_single(e, &l, "extension")?;
			let parts = children(t.content, &l)?;
			let value = read_single(parts[parts.len() - 1].content, &l, "nameConstraints")?;
			let lists = children(value.content, &l)?;
			let mut new_lists: Vec<Vec<u8>> = Vec::new();
			let want_tag = if in_excluded { 0xa1 } else { 0xa0 };
			let mut done = false;
			for lst in &lists {
				if lst.raw[0] == want_tag {
					let mut subs: Vec<Vec<u8>> = children(lst.content, &l)?.iter().map(|s| s.raw.to_vec()).collect();
					let at = pos as usize % (subs.len() + 1);
					subs.insert(at, odd.clone());
					new_lists.push(enc_tlv(want_tag, &subs.concat()));
					done = true;
				} else {
					new_lists.push(lst.raw.to_vec());
				}
			}
			if !done {
				continue;
			}
			let mut items: Vec<Vec<u8>> = parts[..parts.len() - 1].iter().map(|p| p.raw.to_vec()).collect();
			items.push(enc_tlv(0x04, &enc_seq(&new_lists)));
			*e = enc_seq(&items);
		}
	}
	for (i, e) in exts.iter_mut().enumerate() {
		if i < 16 && flip & (1 << i) != 0 {
			let l = crate::der::Lints::new();
			let t = crate::der::read_single(e, &l, "extension")?;
			let parts = crate::der::children(t.content, &l)?;
			let was_critical = parts.len() == 3;
			let mut items = vec![parts[0].raw.to_vec()];
			if !was_critical {
				items.push(forge::enc_bool(true));
			}
			items.push(parts[parts.len() - 1].raw.to_vec());
			*e = crate::der::enc_seq(&items);
		}
	}
	let fc = forge::ForgeCert {
		serial: &f.spec.serial.as_ref().unwrap().0,
		issuer: &name,
		subject: &name,
		not_before: f.spec.not_before.unix,
		not_after: f.spec.not_after.unix,
		subject_spki: &keys::fixture(&f.key).spki,
		extensions: exts,
	};
	forge::forge_cert(&fc, &f.key, f.digest)
}

pub fn check_foreign(f: &ForeignCa, info: &mut CaseInfo) -> Result<(), String> {
	info.nontrivial = f.spec.ext_fields_set().len() >= 2;
	info.class(format!("foreign-key:{}", f.key.label()));
	let der = forge_ca(f)?;
	if !forge::openssl_accepts_cert(&der, &f.key) {
		return Err("INTERNAL: OpenSSL does not accept the forged CA certificate".into());
	}
	let want = mk::cert_params(&f.spec)?;
	let imported = match rcgen::CertificateParams::from_ca_cert_der(&der.clone().into()) {
		Ok(p) => p,
		Err(e) => return Err(format!("from_ca_cert_der refuses an OpenSSL-accepted CA certificate with only supported fields: {e}")),
	};
	let serial_mag = model::strip_zeros(&f.spec.serial.as_ref().unwrap().0);
	compare_import(&imported, &want, &f.spec, f.ski.as_ref().map(|h| h.0.as_slice()), &serial_mag)?;
	let pem = format!(
		"-----BEGIN CERTIFICATE-----\n{}-----END CERTIFICATE-----\n",
		openssl::x509::X509::from_der(&der).unwrap().to_pem().ok().and_then(|p| String::from_utf8(p).ok()).map(|s| s.lines().filter(|l| !l.starts_with("-----")).map(|l| format!("{l}\n")).collect::<String>()).unwrap_or_default()
	);
	let from_pem = rcgen::CertificateParams::from_ca_cert_pem(&pem).map_err(|e| format!("from_ca_cert_pem: {e}"))?;
	if from_pem != imported {
		return Err("from_ca_cert_pem and from_ca_cert_der return different parameters".into());
	}
	Ok(())
}

pub fn def() -> PropertyDef {
	PropertyDef {
		id: "C17",
		rule: "Certificates generated by rcgen over the C02 space restricted to what import documents as supported (names with distinct attribute types, OID arcs < 2^32; Other EKUs, custom extensions, CRL DPs and AKI may be present but are not compared), self- and issuer-signed, imported through from_ca_cert_der and _pem; plus CA certificates with the same fields assembled by the harness encoder, signed and pre-accepted by OpenSSL. Oracle: field-by-field equality with the generating parameters (name, IsCa/path length, KU set, standard EKU set, SAN list, name-constraint subtrees incl. CIDR address/mask and directory names, serial as integer, validity truncated to seconds, SKI captured as PreSpecified), PEM = DER, and re-issuing reproduces the fields. Non-trivial = >= 2 compared extension fields set.",
		assumptions: vec!["the harness decoder and encoder", "OpenSSL parses and verifies every forged CA certificate before it is used"],
		subs: vec![
			prop_sub("generated", 48_000, 700_000, generated_case, check_generated),
			prop_sub("foreign", 24_000, 300_000, foreign_ca, check_foreign),
		],
	}
}
