//! Oracle self-test: the harness decoder is run against certificates built by **OpenSSL's own
//! encoder** (X509Builder and its extension builders) from generated content. A disagreement is a
//! defect of the harness (exit 2, `INTERNAL:`), never a violation of rcgen.

use std::collections::BTreeSet;

use openssl::asn1::{Asn1Integer, Asn1Time, Asn1Type};
use openssl::bn::BigNum;
use openssl::hash::MessageDigest;
use openssl::nid::Nid;
use openssl::x509::extension::{BasicConstraints, ExtendedKeyUsage, KeyUsage, SubjectAlternativeName, SubjectKeyIdentifier};
use openssl::x509::{X509Builder, X509NameBuilder};
use proptest::prelude::*;
use serde::{Deserialize, Serialize};

use crate::der::Lints;
use crate::gen;
use crate::keys;
use crate::props::common::*;
use crate::runner::*;
use crate::spec::*;
use crate::x509::{self, ExtValue, GeneralName};

#[derive(Clone, Debug, Serialize, Deserialize, PartialEq, Eq, Hash)]
pub struct OsslCert {
	pub key: KeySpec,
	pub serial: Hex,
	pub not_before: i64,
	pub not_after: i64,
	/// (nid index, printable?, text)
	pub subject: Vec<(u8, bool, String)>,
	pub ca: Option<Option<u8>>,
	pub ku: Vec<u8>,
	pub eku: Vec<u8>,
	pub dns: Vec<String>,
	pub ips: Vec<Hex>,
	pub ski: bool,
}

const NIDS: [(Nid, &[u64]); 6] = [
	(Nid::COMMONNAME, &[2, 5, 4, 3]),
	(Nid::ORGANIZATIONNAME, &[2, 5, 4, 10]),
	(Nid::ORGANIZATIONALUNITNAME, &[2, 5, 4, 11]),
	(Nid::LOCALITYNAME, &[2, 5, 4, 7]),
	(Nid::STATEORPROVINCENAME, &[2, 5, 4, 8]),
	(Nid::COUNTRYNAME, &[2, 5, 4, 6]),
];

fn ossl_cert() -> BoxedStrategy<OsslCert> {
	(
		validator_key(),
		gen::conformant_serial(),
		(0i64..gen::Y2050 - 10, 0i64..4_000_000_000),
		proptest::collection::vec((0u8..6, any::<bool>(), "[A-Za-z0-9 ]{1,12}"), 0..5),
		prop::option::of(prop::option::of(0u8..200)),
		proptest::collection::vec(0u8..9, 0..5),
		proptest::collection::vec(0u8..5, 0..3),
		proptest::collection::vec(hostname_strategy(), 0..3),
		proptest::collection::vec(gen::ip_bytes(), 0..3),
		any::<bool>(),
	)
		.prop_map(|(key, serial, (nb, dur), subject, ca, ku, eku, dns, ips, ski)| OsslCert {
			key,
			serial,
			not_before: nb,
			not_after: nb + dur,
			subject: subject.into_iter().map(|(n, p, t)| (n, p, if n == 5 { "AT".to_string() } else { t })).collect(),
			ca,
			ku,
			eku,
			dns,
			ips,
			ski,
		})
		.boxed()
}

fn build(c: &OsslCert) -> Result<Vec<u8>, openssl::error::ErrorStack> {
	let fx = keys::fixture(&c.key);
	let mut name = X509NameBuilder::new()?;
	for (n, printable, text) in &c.subject {
		let ty = if *printable { Asn1Type::PRINTABLESTRING } else { Asn1Type::UTF8STRING };
		name.append_entry_by_nid_with_type(NIDS[*n as usize % 6].0, text, ty)?;
	}
	let name = name.build();
	let mut b = X509Builder::new()?;
	b.set_version(2)?;
	let bn = BigNum::from_slice(&c.serial.0)?;
	let serial = Asn1Integer::from_bn(&bn)?;
	b.set_serial_number(&serial)?;
	b.set_subject_name(&name)?;
	b.set_issuer_name(&name)?;
	let nb = Asn1Time::from_unix(c.not_before)?;
	b.set_not_before(&nb)?;
	let na = Asn1Time::from_unix(c.not_after)?;
	b.set_not_after(&na)?;
	b.set_pubkey(&fx.pkey)?;
	if let Some(pl) = &c.ca {
		let mut bc = BasicConstraints::new();
		bc.critical().ca();
		if let Some(n) = pl {
			bc.pathlen(*n as u32);
		}
		b.append_extension(bc.build()?)?;
	}
	if !c.ku.is_empty() {
		let mut ku = KeyUsage::new();
		ku.critical();
		for k in &c.ku {
			match k % 9 {
				0 => ku.digital_signature(),
				1 => ku.non_repudiation(),
				2 => ku.key_encipherment(),
				3 => ku.data_encipherment(),
				4 => ku.key_agreement(),
				5 => ku.key_cert_sign(),
				6 => ku.crl_sign(),
				7 => ku.encipher_only(),
				_ => ku.decipher_only(),
			};
		}
		b.append_extension(ku.build()?)?;
	}
	if !c.eku.is_empty() {
		let mut e = ExtendedKeyUsage::new();
		for k in &c.eku {
			match k % 5 {
				0 => e.server_auth(),
				1 => e.client_auth(),
				2 => e.code_signing(),
				3 => e.email_protection(),
				_ => e.time_stamping(),
			};
		}
		b.append_extension(e.build()?)?;
	}
	if !c.dns.is_empty() || !c.ips.is_empty() {
		let mut san = SubjectAlternativeName::new();
		for d in &c.dns {
			san.dns(d);
		}
		for ip in &c.ips {
			san.ip(&crate::mk::ip(&ip.0).to_string());
		}
		let ext = san.build(&b.x509v3_context(None, None))?;
		b.append_extension(ext)?;
	}
	if c.ski {
		let ext = SubjectKeyIdentifier::new().build(&b.x509v3_context(None, None))?;
		b.append_extension(ext)?;
	}
	let md = keys::digest_of(&c.key).unwrap_or_else(MessageDigest::null);
	b.sign(&fx.pkey, md)?;
	b.build().to_der()
}

pub fn check(c: &OsslCert, info: &mut CaseInfo) -> Result<(), String> {
	info.nontrivial = !c.subject.is_empty() || !c.ku.is_empty() || !c.dns.is_empty();
	let der = build(c).map_err(|e| format!("INTERNAL: OpenSSL cannot build the self-test certificate: {e}"))?;
	let l = Lints::new();
	let bad = |what: String| format!("INTERNAL: decoder self-test: {what} (certificate {})", crate::der::hex(&der));
	let d = x509::parse_cert(&der, &l).map_err(|e| bad(format!("the harness decoder rejects a certificate encoded by OpenSSL: {e}")))?;
	let lints = l.take();
	if !lints.is_empty() {
		return Err(bad(format!("the canonicity validator complains about OpenSSL's DER: {}", lints.join("; "))));
	}
	if crate::der::uint_magnitude(&d.serial) != Some(crate::model::strip_zeros(&c.serial.0)) {
		return Err(bad("serial differs".into()));
	}
	if d.not_before.unix != c.not_before || d.not_after.unix != c.not_after {
		return Err(bad(format!("validity differs: {} {} vs {} {}", d.not_before.unix, d.not_after.unix, c.not_before, c.not_after)));
	}
	let flat = d.subject.flat().ok_or_else(|| bad("multi-valued RDN".into()))?;
	if flat.len() != c.subject.len() {
		return Err(bad("subject length differs".into()));
	}
	for (a, (n, printable, text)) in flat.iter().zip(c.subject.iter()) {
		let want_tag = if *printable { 19 } else { 12 };
		if a.oid != NIDS[*n as usize % 6].1 || a.tag != want_tag || a.bytes != text.as_bytes() {
			return Err(bad(format!("subject attribute differs: {:?} vs ({n}, {printable}, {text})", a)));
		}
	}
	if d.spki.raw != keys::fixture(&c.key).spki {
		return Err(bad("SPKI differs".into()));
	}
	crate::props::common::verify_sig(&c.key, &d.tbs_raw, &d.signature).map_err(|e| bad(format!("signed range: {e}")))?;
	for e in d.extensions.iter().flatten() {
		match &e.value {
			ExtValue::BasicConstraints { ca, path_len } => {
				if !*ca || c.ca.is_none() || *path_len != c.ca.unwrap().map(|n| n as u64) {
					return Err(bad("basicConstraints differs".into()));
				}
			},
			ExtValue::KeyUsage(bits) => {
				let want: BTreeSet<u32> = c.ku.iter().map(|k| (*k % 9) as u32).collect();
				if bits.iter().copied().collect::<BTreeSet<_>>() != want {
					return Err(bad("keyUsage differs".into()));
				}
			},
			ExtValue::Eku(oids) => {
				let table = [EkuSpec::ServerAuth, EkuSpec::ClientAuth, EkuSpec::CodeSigning, EkuSpec::EmailProtection, EkuSpec::TimeStamping];
				let want: BTreeSet<Vec<u64>> = c.eku.iter().map(|k| table[*k as usize % 5].oid()).collect();
				if oids.iter().cloned().collect::<BTreeSet<_>>() != want {
					return Err(bad("extKeyUsage differs".into()));
				}
			},
			ExtValue::San(names) => {
				let mut want: Vec<GeneralName> = c.dns.iter().map(|d| GeneralName::Dns(d.as_bytes().to_vec())).collect();
				want.extend(c.ips.iter().map(|i| GeneralName::Ip(i.0.clone())));
				if names != &want {
					return Err(bad("subjectAltName differs".into()));
				}
			},
			ExtValue::Ski(s) => {
				// OpenSSL: SHA-1 of the subjectPublicKey bits
				if s.len() != 20 {
					return Err(bad("SKI length".into()));
				}
			},
			other => return Err(bad(format!("unexpected extension {:?}", other))),
		}
	}
	Ok(())
}

pub fn sub() -> Sub {
	prop_sub("decoder-selftest", 6_000, 60_000, ossl_cert, check)
}
