//! C09 — every time value is encoded as the same instant in the form RFC 5280 requires.

use proptest::prelude::*;
use serde::{Deserialize, Serialize};

use crate::der::{unix_year, TimeForm, TimeVal};
use crate::gen;
use crate::props::common::*;
use crate::runner::*;
use crate::spec::*;

/// A batch of times; each is placed in every field that carries a time. The revocation dates
/// of one CRL carry the whole batch, validity / update fields carry the first two.
#[derive(Clone, Debug, Serialize, Deserialize, PartialEq, Eq, Hash)]
pub struct TimeBatch {
	pub times: Vec<TimeSpec>,
}

fn check_one(tv: &TimeVal, want: &TimeSpec, field: &str) -> Result<(), String> {
	if tv.unix != want.unix {
		return Err(format!(
			"{field}: encoded '{}' is instant {}, but the input instant (truncated to seconds) is {} [input offset {} s, nanos {}]",
			tv.text, tv.unix, want.unix, want.offset, want.nanos
		));
	}
	let y = unix_year(want.unix);
	let want_form = if (1950..=2049).contains(&y) { TimeForm::Utc } else { TimeForm::Generalized };
	if tv.form != want_form {
		return Err(format!("{field}: UTC year {y} encoded as {:?} ('{}') [input offset {} s]", tv.form, tv.text, want.offset));
	}
	Ok(())
}

fn ed_key() -> KeySpec {
	KeySpec { alg: KeyAlg::Ed25519, idx: 4, rsa_hash: RsaHash::Sha256, remote: !cfg!(feature = "crypto") }
}

pub fn check_batch(b: &TimeBatch, info: &mut CaseInfo) -> Result<(), String> {
	let near = |t: &TimeSpec| {
		[gen::Y0_START, gen::Y1950, gen::Y2050, gen::Y9999_END].iter().any(|c| (t.unix - c).abs() <= 86400)
	};
	info.nontrivial = b.times.iter().any(|t| t.offset != 0 || t.nanos != 0 || near(t));
	for t in &b.times {
		if near(t) {
			info.class("near-boundary");
		}
		if t.offset != 0 {
			info.class("offset!=0");
		}
		if t.nanos != 0 {
			info.class("nanos!=0");
		}
		let y = unix_year(t.unix);
		info.class(if (1950..=2049).contains(&y) { "form:utctime" } else { "form:generalized" });
	}
	let t0 = b.times[0];
	let t1 = *b.times.get(1).unwrap_or(&t0);

	// certificate: notBefore / notAfter
	let mut spec = CertSpec::minimal();
	spec.not_before = t0;
	spec.not_after = t1;
	let case = CertCase { spec, key: ed_key(), pk_source: PkSource::KeyPair, issuer: None };
	let built = build_cert(&case)?;
	let (c, _) = decode_cert(built.cert.der())?;
	check_one(&c.not_before, &t0, "notBefore")?;
	check_one(&c.not_after, &t1, "notAfter")?;

	// the same two instants in a certificate issued by a CA whose own validity is another pair of
	// the batch (earlier, later, overlapping - whatever comes): the subject's fields are the subject's
	{
		let n = b.times.len();
		let mut ispec = CertSpec::minimal();
		ispec.is_ca = IsCaSpec::CaUnconstrained;
		ispec.dn = DnSpec(vec![(DnTypeSpec::Org, DnValueSpec::new(StrKind::Utf8, "rv time issuer"))]);
		ispec.not_before = b.times[n - 1];
		ispec.not_after = b.times[n / 2];
		let mut spec = CertSpec::minimal();
		spec.not_before = t0;
		spec.not_after = t1;
		let case = CertCase { spec, key: ed_key(), pk_source: PkSource::KeyPair, issuer: Some(IssuerCase { spec: ispec, key: ed_key() }) };
		let built = build_cert(&case)?;
		let (c, _) = decode_cert(built.cert.der())?;
		check_one(&c.not_before, &t0, "notBefore (issuer-signed)")?;
		check_one(&c.not_after, &t1, "notAfter (issuer-signed)")?;
	}

	// CRL: thisUpdate / nextUpdate need this < next (encoded), so order the pair
	let (lo, hi) = if t0.unix < t1.unix { (t0, t1) } else { (t1, t0) };
	let hi = if hi.unix == lo.unix { gen::clamp_time((hi.unix + 1).min(gen::Y9999_END), hi.nanos, hi.offset) } else { hi };
	let lo = if hi.unix == lo.unix { gen::clamp_time(lo.unix - 1, lo.nanos, lo.offset) } else { lo };
	let crl = CrlSpec {
		this_update: lo,
		next_update: hi,
		crl_number: Hex(vec![1]),
		idp: None,
		revoked: b
			.times
			.iter()
			.enumerate()
			.map(|(i, t)| RevokedSpec {
				// the last entry repeats the first one's serial (a hold followed by the final revocation)
				serial: Hex((if i > 1 && i == b.times.len() - 1 { 1 } else { i as u32 + 1 }).to_be_bytes().to_vec()),
				revocation_time: *t,
				// entries carry reasons and invalidity dates (other instants of the batch, earlier or later)
				reason: match i % 4 {
					0 => Some(ReasonSpec::KeyCompromise),
					1 => None,
					2 => Some(ReasonSpec::CaCompromise),
					_ => Some(ReasonSpec::CessationOfOperation),
				},
				invalidity_date: if i % 3 != 1 { Some(b.times[(i + 1) % b.times.len()]) } else { None },
			})
			.collect(),
		kid: KidSpec::Pre(Hex(vec![9])),
	};
	let issuer = IssuerCase { spec: CertSpec::minimal(), key: ed_key() };
	let built = build_crl(&CrlCase { crl, issuer })?.map_err(|e| format!("CRL refused: {e}"))?;
	let (c, _) = decode_crl(built.crl.der())?;
	check_one(&c.this_update, &lo, "thisUpdate")?;
	check_one(c.next_update.as_ref().ok_or("no nextUpdate")?, &hi, "nextUpdate")?;
	let entries = c.revoked.ok_or("no revoked entries")?;
	if entries.len() != b.times.len() {
		return Err("entry count mismatch".into());
	}
	for (e, t) in entries.iter().zip(b.times.iter()) {
		check_one(&e.revocation_date, t, "revocationDate")?;
	}

	// thisUpdate and nextUpdate inside one whole second (any sub-second parts and offsets): whether or
	// not such a request is served is C08's subject; if it is, both fields must still be the given
	// instants - never an instant adjusted to make the pair presentable
	let twin = gen::clamp_time(t0.unix, t1.nanos, t1.offset);
	if twin.unix == t0.unix {
		let crl = CrlSpec {
			this_update: t0,
			next_update: twin,
			crl_number: Hex(vec![1]),
			idp: None,
			revoked: vec![],
			kid: KidSpec::Pre(Hex(vec![9])),
		};
		let issuer = IssuerCase { spec: CertSpec::minimal(), key: ed_key() };
		match build_crl(&CrlCase { crl, issuer })? {
			Err(_) => info.class("same-second-pair:refused"),
			Ok(b3) => {
				info.class("same-second-pair:served");
				let (c3, _) = decode_crl(b3.crl.der())?;
				check_one(&c3.this_update, &t0, "thisUpdate (same-second pair)")?;
				check_one(c3.next_update.as_ref().ok_or("no nextUpdate")?, &twin, "nextUpdate (same-second pair)")?;
			},
		}
	}

	// metamorphic: the same instants presented at offset 0 give byte-identical time fields
	let utc: Vec<TimeSpec> = b.times.iter().map(|t| TimeSpec { unix: t.unix, nanos: 0, offset: 0 }).collect();
	if utc != b.times {
		let crl2 = CrlSpec {
			this_update: TimeSpec { unix: lo.unix, nanos: 0, offset: 0 },
			next_update: TimeSpec { unix: hi.unix, nanos: 0, offset: 0 },
			crl_number: Hex(vec![1]),
			idp: None,
			revoked: utc
				.iter()
				.enumerate()
				.map(|(i, t)| RevokedSpec {
					serial: Hex((if i > 1 && i == utc.len() - 1 { 1 } else { i as u32 + 1 }).to_be_bytes().to_vec()),
					revocation_time: *t,
					reason: match i % 4 {
						0 => Some(ReasonSpec::KeyCompromise),
						1 => None,
						2 => Some(ReasonSpec::CaCompromise),
						_ => Some(ReasonSpec::CessationOfOperation),
					},
					invalidity_date: if i % 3 != 1 { Some(utc[(i + 1) % utc.len()]) } else { None },
				})
				.collect(),
			kid: KidSpec::Pre(Hex(vec![9])),
		};
		let issuer = IssuerCase { spec: CertSpec::minimal(), key: ed_key() };
		let built2 = build_crl(&CrlCase { crl: crl2, issuer })?.map_err(|e| format!("CRL refused: {e}"))?;
		let (c2, _) = decode_crl(built2.crl.der())?;
		if c2.tbs_raw != c.tbs_raw {
			return Err("the encoded CRL depends on the UTC offset / sub-second part the caller used for the same instants".into());
		}
	}
	Ok(())
}

fn batch() -> BoxedStrategy<TimeBatch> {
	proptest::collection::vec(gen::time_valid(), 2..6).prop_map(|times| TimeBatch { times }).boxed()
}

pub const OFFSET_GRID: [i32; 41] = [
	0, 1, -1, 59, -59, 60, -60, 1800, -1800, 3599, -3599, 3600, -3600, 3601, -3601, 5400, -5400, 7200, -7200, 12600, -12600,
	19800, -19800, 20700, 28800, -28800, 34200, 43200, -43200, 45900, 50400, -50400, 86399, -86399, 86400, -86400, 90000,
	-90000, 93599, -93599, 46800,
];

/// Thorough: every second within +-26 h of 1950-01-01 and 2050-01-01 and the in-domain 26 h next
/// to 0000-01-01 and 9999-12-31, each at the 41 offsets of the grid; 2048 times per CRL.
fn boundary_sweep(cfg: &RunCfg) -> Vec<TimeBatch> {
	let span = 26 * 3600;
	let step = if cfg.tier == Tier::Thorough { 1 } else { 61 };
	let mut times = Vec::new();
	let ranges = [
		(gen::Y1950 - span, gen::Y1950 + span),
		(gen::Y2050 - span, gen::Y2050 + span),
		(gen::Y0_START, gen::Y0_START + span),
		(gen::Y9999_END - span, gen::Y9999_END),
	];
	for (a, b) in ranges {
		let mut t = a;
		let mut k = 0usize;
		while t <= b {
			if cfg.tier == Tier::Thorough {
				for off in OFFSET_GRID {
					times.push(gen::clamp_time(t, if k % 3 == 0 { 999_999_999 } else { 0 }, off));
				}
			} else {
				for j in 0..6 {
					times.push(gen::clamp_time(t, if k % 3 == 0 { 999_999_999 } else { 0 }, OFFSET_GRID[(k * 7 + j * 5) % 41]));
				}
			}
			t += step;
			k += 1;
		}
		// always include the exact boundary seconds at every offset
		for edge in [a, b, (a + b) / 2, (a + b) / 2 - 1, (a + b) / 2 + 1] {
			for off in OFFSET_GRID {
				times.push(gen::clamp_time(edge.clamp(gen::Y0_START, gen::Y9999_END), 0, off));
			}
		}
	}
	times.chunks(2048).map(|c| TimeBatch { times: c.to_vec() }).collect()
}

pub fn def() -> PropertyDef {
	PropertyDef {
		id: "C09",
		rule: "OffsetDateTime = (instant, nanosecond, UTC offset) with UTC year 0..=9999, boundary-biased (+-2 days around 0000-01-01, 1950-01-01, 2050-01-01, 9999-12-31, epoch; uniform otherwise), offsets over the whole +-25:59:59 range; every value is placed in notBefore, notAfter, thisUpdate, nextUpdate and revocationDate and parsed back strictly (exact length, digits, Z, no fraction): same instant truncated to seconds, UTCTime iff UTC year in 1950..=2049, and byte-identical encoding when the same instants are given at offset 0. Boundary sweep: quick every 61st second, thorough every second within +-26 h of each boundary x 41 offsets. Non-trivial = offset != 0 or nanosecond != 0 or within a day of a boundary.",
		assumptions: vec!["the harness's strict time parser and civil-calendar arithmetic (unit-tested)"],
		subs: vec![prop_sub("fields", 120_000, 600_000, batch, check_batch), sweep_sub("boundary-sweep", boundary_sweep, check_batch)],
	}
}
