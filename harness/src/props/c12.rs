//! C12 — constraints placed in certificates are enforced by independent validators.

use proptest::prelude::*;
use serde::{Deserialize, Serialize};

use crate::gen;
use crate::keys;
use crate::mk;
use crate::props::common::*;
use crate::runner::*;
use crate::spec::*;
use crate::validate::{self, Chain, Purpose};

#[derive(Clone, Copy, Debug, Serialize, Deserialize, PartialEq, Eq, Hash)]
pub enum Which {
	Root,
	Intermediate,
	Leaf,
}

#[derive(Clone, Debug, Serialize, Deserialize, PartialEq, Eq, Hash)]
pub enum Violation {
	/// the leaf's issuer (intermediate if present, else the root) is not a CA
	IssuerNotCa { explicit: bool },
	/// root allows 0 intermediates but one is present
	PathLen,
	/// the first intermediate allows 0 intermediates below it but a second one is present
	PathLenIntermediate,
	TimeBefore(Which),
	TimeAfter(Which),
	PermittedDns,
	ExcludedDns,
	PermittedIp,
	ExcludedIp,
	/// requested purpose not among the leaf's extended key usages
	Eku,
	/// the leaf's issuer declares key usages without keyCertSign
	KeyCertSign,
	/// the permitted DNS subtree is the subdomains-only form ".domain" and the leaf names the bare domain
	PermittedDnsBare,
	/// NOT a violation: the excluded DNS subtree is ".domain" and the leaf names the bare domain,
	/// which lies outside it. Both validators must still accept.
	BareOutsideExcludedDot,
	/// the excluded DNS subtree is the empty name, which every DNS name lies inside
	ExcludedDnsEmpty,
}

/// Baseline chain (every constraint satisfied) plus the knobs the violations turn.
#[derive(Clone, Debug, Serialize, Deserialize, PartialEq, Eq, Hash)]
pub struct ChainSpec {
	pub three_level: bool,
	/// a second intermediate between the first one and the leaf
	pub four_level: bool,
	pub keys: [KeySpec; 3],
	pub kids: [KidSpec; 3],
	pub at: i64,
	pub client_purpose: bool,
	/// path length on the root: None = unconstrained, Some(n >= number of intermediates)
	pub root_path_len: Option<u8>,
	pub inter_path_len: Option<u8>,
	/// where name constraints live (root or intermediate)
	pub nc_on_root: bool,
	pub domain: String,
	pub v6: bool,
	pub net: Hex,
	pub prefix: u8,
	pub host_bits: Hex,
	pub ca_ku: Vec<KuBit>,
	pub leaf_extra_ekus: Vec<EkuSpec>,
	pub leaf_eku_empty: bool,
	/// DNS subtrees are written in the subdomains-only form with a leading period
	#[serde(default)]
	pub dns_dot: bool,
	/// every CA carries a non-empty key usage list without keyCertSign. OpenSSL refuses such issuers
	/// whatever else holds, so only webpki (which ignores CA key usage) is asked in this mode.
	#[serde(default)]
	pub webpki_only_ku: bool,
	/// sub-second part and UTC offset in which the callers states every validity instant
	#[serde(default)]
	pub time_nanos: u32,
	#[serde(default)]
	pub time_offset: i32,
	/// no name constraints anywhere in the chain (certificates can then be free of extensions)
	#[serde(default)]
	pub no_nc: bool,
	/// validity windows end / begin one hour from the verification time instead of a month
	#[serde(default)]
	pub tight: bool,
	/// the permitted DNS subtree is the empty name (matches every DNS name) next to an unrelated one
	#[serde(default)]
	pub permitted_dns_empty: bool,
	pub violation: Option<Violation>,
}

fn chain_spec() -> BoxedStrategy<ChainSpec> {
	(
		(
			any::<bool>(),
			[validator_key(), validator_key(), validator_key()],
			[gen::kid(), gen::kid(), gen::kid()],
			1_000_000_000i64..3_000_000_000,
			any::<bool>(),
			prop_oneof![Just(None), (2u8..5).prop_map(Some)],
			prop_oneof![Just(None), (1u8..3).prop_map(Some)],
			(any::<bool>(), prop::bool::weighted(0.3)),
		),
		(
			hostname_strategy(),
			any::<bool>(),
			proptest::collection::vec(any::<u8>(), 16),
			1u8..=128,
			proptest::collection::vec(any::<u8>(), 16),
			// key-usage lists as callers build them: any order, with repeats
			prop_oneof![Just(vec![]), Just(vec![5u8]), Just(vec![5u8, 6]), Just(vec![0u8, 5, 6]), Just(vec![5u8, 6, 5]), Just(vec![6u8, 5, 0, 6, 0])],
			prop_oneof![Just(vec![]), Just(vec![EkuSpec::CodeSigning]), Just(vec![EkuSpec::EmailProtection, EkuSpec::TimeStamping])],
			prop::bool::weighted(0.25),
			prop::bool::weighted(0.35),
			prop::bool::weighted(0.12),
			(prop_oneof![2 => Just(0u32), 1 => 1u32..1_000_000_000], prop_oneof![2 => Just(0i32), 1 => -86_399i32..=86_399], prop::bool::weighted(0.3), prop::bool::weighted(0.4), prop::bool::weighted(0.15)),
		),
		prop_oneof![
			3 => Just(None),
			1 => Just(Some(Violation::PermittedDnsBare)),
			1 => Just(Some(Violation::BareOutsideExcludedDot)),
			1 => Just(Some(Violation::ExcludedDnsEmpty)),
			1 => any::<bool>().prop_map(|explicit| Some(Violation::IssuerNotCa { explicit })),
			1 => Just(Some(Violation::PathLen)),
			1 => Just(Some(Violation::PathLenIntermediate)),
			1 => prop::sample::select(vec![Which::Root, Which::Intermediate, Which::Leaf]).prop_map(|w| Some(Violation::TimeBefore(w))),
			1 => prop::sample::select(vec![Which::Root, Which::Intermediate, Which::Leaf]).prop_map(|w| Some(Violation::TimeAfter(w))),
			1 => Just(Some(Violation::PermittedDns)),
			1 => Just(Some(Violation::ExcludedDns)),
			1 => Just(Some(Violation::PermittedIp)),
			1 => Just(Some(Violation::ExcludedIp)),
			1 => Just(Some(Violation::Eku)),
			1 => Just(Some(Violation::KeyCertSign)),
		],
	)
		.prop_map(
			|((three_level, keys, kids, at, client_purpose, root_path_len, inter_path_len, (nc_on_root, four_level)), (domain, v6, net, prefix, host_bits, ca_ku, leaf_extra_ekus, leaf_eku_empty, dns_dot, webpki_only_ku, (time_nanos, time_offset, no_nc, tight, permitted_dns_empty)), violation)| {
				let width = if v6 { 16 } else { 4 };
				let mut net = net;
				let mut prefix = if v6 { prefix } else { (prefix - 1) % 32 + 1 };
				// a share of the IPv6 subnets lies inside ::ffff:0:0/96 (IPv4-mapped), ::/96 or 64:ff9b::/96
				if v6 && host_bits[0] % 4 == 0 {
					let head: [u8; 12] = match host_bits[1] % 3 {
						0 => [0, 0, 0, 0, 0, 0, 0, 0, 0, 0, 0xff, 0xff],
						1 => [0; 12],
						_ => [0, 0x64, 0xff, 0x9b, 0, 0, 0, 0, 0, 0, 0, 0],
					};
					net[..12].copy_from_slice(&head);
					prefix = 96 + (prefix - 1) % 32 + 1;
				}
				let four_level = four_level || matches!(violation, Some(Violation::PathLenIntermediate));
				let three_level = three_level || four_level || matches!(violation, Some(Violation::PathLen) | Some(Violation::TimeBefore(Which::Intermediate)) | Some(Violation::TimeAfter(Which::Intermediate)));
				ChainSpec {
					three_level,
					four_level,
					keys,
					kids,
					at,
					client_purpose,
					root_path_len,
					inter_path_len,
					nc_on_root: nc_on_root || !three_level,
					domain,
					v6,
					net: Hex(net[..width].to_vec()),
					prefix,
					host_bits: Hex(host_bits[..width].to_vec()),
					ca_ku,
					leaf_extra_ekus,
					leaf_eku_empty,
					dns_dot: dns_dot || matches!(violation, Some(Violation::PermittedDnsBare) | Some(Violation::BareOutsideExcludedDot)),
					// the keyCertSign dimension is about OpenSSL's verdict
					webpki_only_ku: webpki_only_ku && !matches!(violation, Some(Violation::KeyCertSign)),
					time_nanos,
					time_offset,
					no_nc: no_nc
						&& !matches!(
							violation,
							Some(Violation::PermittedDns) | Some(Violation::ExcludedDns) | Some(Violation::PermittedIp) | Some(Violation::ExcludedIp) | Some(Violation::PermittedDnsBare) | Some(Violation::BareOutsideExcludedDot) | Some(Violation::ExcludedDnsEmpty)
						),
					tight,
					// with "" permitted every DNS name is inside: the two permitted-DNS violations do not exist then
					permitted_dns_empty: permitted_dns_empty && !matches!(violation, Some(Violation::PermittedDns) | Some(Violation::PermittedDnsBare)),
					violation,
				}
			},
		)
		.boxed()
}

/// Address inside the subnet: network bits from `net`, host bits from `host`.
fn addr_in(net: &[u8], host: &[u8], prefix: u8) -> Vec<u8> {
	let mask = crate::model::prefix_mask(net.len(), prefix);
	net.iter().zip(host.iter()).zip(mask.iter()).map(|((n, h), m)| (n & m) | (h & !m)).collect()
}

/// Address outside: the last network bit flipped.
fn addr_out(net: &[u8], host: &[u8], prefix: u8) -> Vec<u8> {
	let mut a = addr_in(net, host, prefix);
	let bit = prefix as usize - 1;
	a[bit / 8] ^= 0x80 >> (bit % 8);
	a
}

struct Built3 {
	root: Vec<u8>,
	inter: Vec<Vec<u8>>,
	leaf: Vec<u8>,
}

fn build(c: &ChainSpec, violation: Option<&Violation>) -> Result<Built3, String> {
	let purpose_eku = if c.client_purpose { EkuSpec::ClientAuth } else { EkuSpec::ServerAuth };
	let other_eku = if c.client_purpose { EkuSpec::ServerAuth } else { EkuSpec::ClientAuth };
	let day = 86400;
	// the same instants, stated with the case's sub-second part and UTC offset (validity is judged at
	// whole seconds: the margins are a day wide)
	let dress = |(a, b): (TimeSpec, TimeSpec)| -> (TimeSpec, TimeSpec) {
		(TimeSpec { unix: a.unix, nanos: c.time_nanos, offset: c.time_offset }, TimeSpec { unix: b.unix, nanos: c.time_nanos, offset: c.time_offset })
	};
	// margins: a month / a day, or - tight - one hour on every side (smaller than most UTC offsets,
	// so an instant shifted by its offset falls on the wrong side)
	let hour = 3600;
	let (near_before, near_after, miss) = if c.tight { (hour, hour, hour) } else { (30 * day, 300 * day, day) };
	let window = |w: Which| -> (TimeSpec, TimeSpec) {
		dress(match violation {
			Some(Violation::TimeBefore(x)) if *x == w => window_around(c.at, -miss, 400 * day), // starts after `at`
			Some(Violation::TimeAfter(x)) if *x == w => window_around(c.at, 400 * day, -miss), // ended before `at`
			_ => window_around(c.at, near_before, near_after),
		})
	};
	let name = |s: &str| DnSpec(vec![(DnTypeSpec::Org, DnValueSpec::new(StrKind::Utf8, s))]);

	// name constraints
	let subnet = SubtreeSpec::Ip(CidrSpec::Prefix { addr: Hex(addr_in(&c.net.0, &vec![0; c.net.0.len()], c.prefix)), prefix: c.prefix, ctor: 0 });
	let dot = if c.dns_dot { "." } else { "" };
	let dns = SubtreeSpec::Dns(format!("{dot}{}", c.domain));
	let other_dns = SubtreeSpec::Dns(format!("{dot}other-{}", c.domain));
	let mut other_net = c.net.0.clone();
	other_net[0] ^= 0x80;
	let other_subnet = SubtreeSpec::Ip(CidrSpec::Prefix { addr: Hex(other_net), prefix: c.net.0.len() as u8 * 8, ctor: 1 });
	let nc = match violation {
		// permitted lists always hold both a DNS and an IP subtree so that names of the other kind stay allowed
		Some(Violation::ExcludedDns) | Some(Violation::BareOutsideExcludedDot) => NcSpec { permitted: vec![], excluded: vec![dns.clone()] },
		Some(Violation::ExcludedIp) => NcSpec { permitted: vec![], excluded: vec![subnet.clone()] },
		Some(Violation::ExcludedDnsEmpty) => NcSpec { permitted: vec![], excluded: vec![SubtreeSpec::Dns(String::new())] },
		_ if c.permitted_dns_empty => NcSpec { permitted: vec![SubtreeSpec::Dns(format!("unrelated-{}", c.domain)), SubtreeSpec::Dns(String::new()), subnet.clone()], excluded: vec![other_subnet] },
		_ => NcSpec { permitted: vec![dns.clone(), subnet.clone()], excluded: vec![other_dns, other_subnet] },
	};
	let leaf_dns = match violation {
		Some(Violation::PermittedDns) => format!("a.b.{}.invalid", c.domain),
		Some(Violation::PermittedDnsBare) | Some(Violation::BareOutsideExcludedDot) => c.domain.clone(),
		_ => format!("a.b.{}", c.domain),
	};
	let leaf_ip = match violation {
		Some(Violation::PermittedIp) => addr_out(&c.net.0, &c.host_bits.0, c.prefix),
		_ => addr_in(&c.net.0, &c.host_bits.0, c.prefix),
	};

	let issuer_is_inter = c.three_level;
	let ca_ku: Vec<u8> = if c.webpki_only_ku {
		if c.at % 2 == 0 { vec![0, 6] } else { vec![6] }
	} else {
		c.ca_ku.clone()
	};
	let mut root = CertSpec::minimal();
	root.dn = name("rv root");
	root.kid = c.kids[0].clone();
	root.key_usages = ca_ku.clone();
	root.is_ca = match c.root_path_len {
		None => IsCaSpec::CaUnconstrained,
		Some(n) => IsCaSpec::CaConstrained(n),
	};
	if matches!(violation, Some(Violation::PathLen)) {
		root.is_ca = IsCaSpec::CaConstrained(0);
	}
	let (nb, na) = window(Which::Root);
	root.not_before = nb;
	root.not_after = na;

	let mut inter = CertSpec::minimal();
	inter.dn = name("rv intermediate");
	inter.kid = c.kids[1].clone();
	inter.key_usages = ca_ku.clone();
	inter.use_aki = true;
	inter.is_ca = match c.inter_path_len {
		None => IsCaSpec::CaUnconstrained,
		Some(n) => IsCaSpec::CaConstrained(n),
	};
	if matches!(violation, Some(Violation::PathLenIntermediate)) {
		inter.is_ca = IsCaSpec::CaConstrained(0);
	}
	let (nb, na) = window(Which::Intermediate);
	inter.not_before = nb;
	inter.not_after = na;
	// optional second intermediate (always well-formed; it is the leaf's issuer when present)
	let mut inter2 = CertSpec::minimal();
	inter2.dn = name("rv intermediate 2");
	inter2.kid = c.kids[1].clone();
	inter2.key_usages = ca_ku.clone();
	inter2.use_aki = true;
	inter2.is_ca = IsCaSpec::CaUnconstrained;
	let (nb2, na2) = dress(window_around(c.at, near_before, near_after));
	inter2.not_before = nb2;
	inter2.not_after = na2;

	if c.no_nc {
		// nothing - or, in a third of these, constraints that are present but empty on every CA
		if c.at % 3 == 0 {
			root.name_constraints = Some(NcSpec::default());
			inter.name_constraints = Some(NcSpec::default());
			inter2.name_constraints = Some(NcSpec::default());
		}
	} else if c.nc_on_root || !c.three_level {
		root.name_constraints = Some(nc);
	} else {
		inter.name_constraints = Some(nc);
	}
	{
		let issuer = if c.four_level { &mut inter2 } else if issuer_is_inter { &mut inter } else { &mut root };
		match violation {
			Some(Violation::IssuerNotCa { explicit }) => {
				issuer.is_ca = if *explicit { IsCaSpec::ExplicitNoCa } else { IsCaSpec::NoCa };
				if !*explicit {
					// without basicConstraints, a keyUsage with keyCertSign is what OpenSSL (documented
					// legacy leniency for trust anchors) still takes as a CA marker: a non-CA has neither
					issuer.key_usages = vec![];
				}
			},
			Some(Violation::KeyCertSign) => issuer.key_usages = if c.at % 2 == 0 { vec![0, 6] } else { vec![6, 0, 6] },
			_ => {},
		}
	}

	let mut leaf = CertSpec::minimal();
	leaf.dn = name("rv leaf");
	leaf.kid = c.kids[2].clone();
	leaf.use_aki = true;
	leaf.key_usages = vec![0];
	leaf.sans = vec![SanSpec::Dns(leaf_dns), SanSpec::Ip(Hex(leaf_ip))];
	leaf.ekus = match violation {
		Some(Violation::Eku) => {
			let mut v = vec![other_eku];
			v.extend(c.leaf_extra_ekus.clone());
			v
		},
		_ if c.leaf_eku_empty => vec![],
		_ => {
			let mut v = c.leaf_extra_ekus.clone();
			v.push(purpose_eku);
			v
		},
	};
	let (nb, na) = window(Which::Leaf);
	leaf.not_before = nb;
	leaf.not_after = na;

	let k0 = keys::make_key(&c.keys[0])?;
	let k1 = keys::make_key(&c.keys[1])?;
	let k2 = keys::make_key(&c.keys[2])?;
	let root_cert = mk::cert_params(&root)?.self_signed(&k0).map_err(|e| format!("root: {e}"))?;
	if c.four_level {
		let inter_cert = mk::cert_params(&inter)?.signed_by(&k1, &root_cert, &k0).map_err(|e| format!("intermediate: {e}"))?;
		// the second intermediate reuses the leaf key pair object k2 as its own key; the leaf gets k1's
		let inter2_cert = mk::cert_params(&inter2)?.signed_by(&k2, &inter_cert, &k1).map_err(|e| format!("intermediate 2: {e}"))?;
		let leaf_cert = mk::cert_params(&leaf)?.signed_by(&k1, &inter2_cert, &k2).map_err(|e| format!("leaf: {e}"))?;
		Ok(Built3 { root: root_cert.der().to_vec(), inter: vec![inter_cert.der().to_vec(), inter2_cert.der().to_vec()], leaf: leaf_cert.der().to_vec() })
	} else if c.three_level {
		let inter_cert = mk::cert_params(&inter)?.signed_by(&k1, &root_cert, &k0).map_err(|e| format!("intermediate: {e}"))?;
		let leaf_cert = mk::cert_params(&leaf)?.signed_by(&k2, &inter_cert, &k1).map_err(|e| format!("leaf: {e}"))?;
		Ok(Built3 { root: root_cert.der().to_vec(), inter: vec![inter_cert.der().to_vec()], leaf: leaf_cert.der().to_vec() })
	} else {
		let leaf_cert = mk::cert_params(&leaf)?.signed_by(&k2, &root_cert, &k0).map_err(|e| format!("leaf: {e}"))?;
		Ok(Built3 { root: root_cert.der().to_vec(), inter: vec![], leaf: leaf_cert.der().to_vec() })
	}
}

fn verdicts(b: &Built3, c: &ChainSpec) -> (Result<(), (i32, String)>, Result<(), String>) {
	let purpose = if c.client_purpose { Purpose::Client } else { Purpose::Server };
	let chain = Chain {
		leaf: &b.leaf,
		intermediates: b.inter.iter().map(|v| v.as_slice()).collect(),
		root: &b.root,
		at: c.at,
		purpose,
	};
	(validate::openssl_verify(&chain), validate::webpki_verify(&chain))
}

pub fn check_chain(c: &ChainSpec, info: &mut CaseInfo) -> Result<(), String> {
	info.nontrivial = true;
	info.class(if c.four_level { "depth:4" } else if c.three_level { "depth:3" } else { "depth:2" });
	// 1. the baseline satisfies every constraint: both validators accept
	let base = build(c, None)?;
	let (o, w) = verdicts(&base, c);
	if c.dns_dot {
		info.class("dns-subtree:leading-dot");
	}
	if c.time_nanos != 0 || c.time_offset != 0 {
		info.class("validity-stated-with-nanos-or-offset");
	}
	if c.no_nc {
		info.class("no-name-constraints");
	}
	if c.tight {
		info.class("validity-margins:1h");
	}
	if c.permitted_dns_empty && !c.no_nc {
		info.class("permitted-dns:empty-name");
	}
	if c.webpki_only_ku {
		info.class("ca-ku-without-keyCertSign(webpki only)");
		if o.is_ok() {
			return Err("OpenSSL accepts a chain whose CAs declare key usages without keyCertSign".into());
		}
	} else if let Err((code, text)) = o {
		return Err(format!("OpenSSL rejects a chain in which every constraint is satisfied: error {code} ({text})"));
	}
	if let Err(e) = w {
		return Err(format!("webpki rejects a chain in which every constraint is satisfied: {e}"));
	}
	let Some(v) = &c.violation else {
		info.class("all-satisfied");
		return Ok(());
	};
	info.class(format!("violated:{}", match v {
		Violation::IssuerNotCa { explicit } => format!("issuer-not-ca(explicit={explicit})"),
		Violation::TimeBefore(w) => format!("time-before-{w:?}"),
		Violation::TimeAfter(w) => format!("time-after-{w:?}"),
		other => format!("{other:?}"),
	}));
	if matches!(v, Violation::PermittedIp | Violation::ExcludedIp) {
		info.class(format!("ip:{}", if c.v6 { "v6" } else { "v4" }));
	}
	// 2. the same chain with exactly one dimension violated: rejected by every validator whose
	//    documented semantics cover that dimension
	let bad = build(c, Some(v))?;
	let (o, w) = verdicts(&bad, c);
	if matches!(v, Violation::BareOutsideExcludedDot) {
		if let Err((code, text)) = o {
			if !c.webpki_only_ku {
				return Err(format!("OpenSSL rejects a leaf naming the bare domain although only its subdomains are excluded: error {code} ({text})"));
			}
		}
		if let Err(e) = w {
			return Err(format!("webpki rejects a leaf naming the bare domain although only its subdomains are excluded: {e}"));
		}
		return Ok(());
	}
	let issuer_is_anchor = !c.three_level;
	let webpki_covers = match v {
		// webpki does not examine the trust anchor's CA flag, validity or key usage
		Violation::IssuerNotCa { .. } => !issuer_is_anchor,
		Violation::TimeBefore(Which::Root) | Violation::TimeAfter(Which::Root) => false,
		Violation::KeyCertSign => false,
		// a path length on the trust anchor is not part of webpki's TrustAnchor
		Violation::PathLen => false,
		_ => true,
	};
	let skip = matches!(v, Violation::TimeBefore(Which::Intermediate) | Violation::TimeAfter(Which::Intermediate)) && !c.three_level;
	if skip {
		return Ok(());
	}
	if o.is_ok() {
		return Err(format!("OpenSSL accepts the chain although {:?} is violated", v));
	}
	if webpki_covers && w.is_ok() {
		return Err(format!("webpki accepts the chain although {:?} is violated", v));
	}
	if let Err((code, _)) = o {
		info.class(format!("openssl-error:{code}"));
	}
	Ok(())
}

pub fn def() -> PropertyDef {
	PropertyDef {
		id: "C12",
		rule: "Chains root -> [intermediate] -> leaf generated by rcgen with a baseline that satisfies every constraint (CA flags, path lengths >= depth, validity windows covering the verification time, permitted DNS + IP subnets containing the leaf's names, excluded subtrees elsewhere, leaf EKU containing the requested purpose or absent, CA key usages empty or containing keyCertSign), and the same chain with exactly one dimension violated (issuer not a CA with and without explicit basicConstraints, path length, time before/after for each certificate, permitted/excluded DNS in both the plain and the subdomains-only \".domain\" form (a leaf naming the bare domain is outside a permitted \".domain\" and must be rejected, and outside an excluded \".domain\" and must be accepted; the empty DNS subtree, which every DNS name lies inside, as the excluded subtree (reject) or among the permitted ones (accept)), permitted/excluded IPv4/IPv6 subnets with prefix lengths 1..32 / 1..128, EKU, keyCertSign). Validity instants are stated with a generated sub-second part and UTC offset in a third of the cases, in 40 % of the cases the validity windows begin / end one hour from the verification time (less than most offsets), and 30 % of the chains carry no name constraints at all (so that a non-CA issuer can be a certificate without any extension). In a 12% share of cases every CA declares key usages without keyCertSign, which OpenSSL must refuse outright and webpki ignores, so that the other dimensions (path lengths in particular) are judged by webpki alone on certificates with that key usage. Oracle: OpenSSL X509_verify_cert (explicit time and purpose) and webpki verify_for_usage accept the baseline and reject the violated chain, each for the dimensions its documented semantics cover. Every case is non-trivial (a baseline with constraints present or a single-violation pair).",
		assumptions: vec![
			"OpenSSL and webpki implement RFC 5280 path validation for the dimensions each is asked about",
			"webpki is not asked about the trust anchor's own CA flag, validity or key usage, which it does not examine",
		],
		subs: vec![prop_sub("chains", 16_000, 250_000, chain_spec, check_chain)],
	}
}
