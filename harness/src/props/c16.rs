//! C16 — both crypto back ends (and the crypto-less build) agree.
//!
//! The "every advertised feature combination builds" half is driven by /verif/check (cargo check
//! per feature set); this module is the differential half. The ring build is the parent: it owns
//! the proptest runner and sends each case to persistent child processes of the aws-lc-rs and
//! crypto-less harness builds over a line-based JSON pipe.

use std::cell::RefCell;
use std::io::{BufRead, BufReader, Write};
use std::process::{Child, ChildStdin, ChildStdout, Command, Stdio};

use proptest::prelude::*;
use serde::{Deserialize, Serialize};
use serde_json::{json, Value};

use crate::der::{hex, unhex};
use crate::gen::CertGenOpts;
use crate::keys;
use crate::mk;
use crate::props::c15::Art;
use crate::props::common::*;
use crate::runner::*;
use crate::spec::*;

// ---------------------------------------------------------------------------------------------
// child side

fn art_tbs(a: &Art) -> Result<(Vec<u8>, Vec<u8>, Vec<u8>), String> {
	// (signed bytes, signature, complete DER)
	match a {
		Art::Cert(c) => {
			let b = build_cert(c)?;
			let (d, _) = decode_cert(b.cert.der())?;
			Ok((d.tbs_raw, d.signature, b.cert.der().to_vec()))
		},
		Art::Csr(c) => {
			let (csr, _) = build_csr(c)?;
			let (d, _) = decode_csr(csr.der())?;
			Ok((d.cri_raw, d.signature, csr.der().to_vec()))
		},
		Art::Crl(c) => {
			let b = build_crl(c)?.map_err(|e| e.to_string())?;
			let (d, _) = decode_crl(b.crl.der())?;
			Ok((d.tbs_raw, d.signature, b.crl.der().to_vec()))
		},
	}
}

#[cfg(feature = "crypto")]
fn alg_by_name(name: &str) -> Option<&'static rcgen::SignatureAlgorithm> {
	crate::props::c11::algos().into_iter().find(|(n, _)| *n == name).map(|x| x.1)
}

#[cfg(feature = "crypto")]
fn alg_name(a: &rcgen::SignatureAlgorithm) -> String {
	crate::props::c11::algos().into_iter().find(|(_, x)| *x == a).map(|x| x.0.to_string()).unwrap_or_else(|| "?".into())
}

/// Signature verification with this build's own crypto library (not OpenSSL).
fn native_verify(alg: &str, raw_public: &[u8], msg: &[u8], sig: &[u8]) -> Option<bool> {
	#[cfg(feature = "aws_be")]
	{
		use aws_lc_rs::signature as s;
		let a: &dyn s::VerificationAlgorithm = match alg {
			"RSA_SHA256" => &s::RSA_PKCS1_2048_8192_SHA256,
			"RSA_SHA384" => &s::RSA_PKCS1_2048_8192_SHA384,
			"RSA_SHA512" => &s::RSA_PKCS1_2048_8192_SHA512,
			"ECDSA_P256_SHA256" => &s::ECDSA_P256_SHA256_ASN1,
			"ECDSA_P384_SHA384" => &s::ECDSA_P384_SHA384_ASN1,
			"ED25519" => &s::ED25519,
			_ => return None,
		};
		return Some(s::UnparsedPublicKey::new(a, raw_public).verify(msg, sig).is_ok());
	}
	#[cfg(not(feature = "aws_be"))]
	{
		use ring::signature as s;
		let a: &dyn s::VerificationAlgorithm = match alg {
			"RSA_SHA256" => &s::RSA_PKCS1_2048_8192_SHA256,
			"RSA_SHA384" => &s::RSA_PKCS1_2048_8192_SHA384,
			"RSA_SHA512" => &s::RSA_PKCS1_2048_8192_SHA512,
			"ECDSA_P256_SHA256" => &s::ECDSA_P256_SHA256_ASN1,
			"ECDSA_P384_SHA384" => &s::ECDSA_P384_SHA384_ASN1,
			"ED25519" => &s::ED25519,
			_ => return None,
		};
		Some(s::UnparsedPublicKey::new(a, raw_public).verify(msg, sig).is_ok())
	}
}

fn handle(req: &Value) -> Value {
	let op = req["op"].as_str().unwrap_or("");
	let r: Result<Value, String> = (|| match op {
		"tbs" => {
			let a: Art = serde_json::from_value(req["art"].clone()).map_err(|e| format!("INTERNAL: child cannot read the case (stale child binary?): {e}"))?;
			let r = no_panic(|| art_tbs(&a))?;
			let (tbs, sig, full) = r?;
			Ok(json!({"tbs": hex(&tbs), "sig": hex(&sig), "full": hex(&full)}))
		},
		#[cfg(feature = "crypto")]
		"genkey" => {
			let alg = alg_by_name(req["alg"].as_str().unwrap_or("")).ok_or("unknown algorithm")?;
			// RSA keys: through generate_for, or through generate_rsa_for with the size asked for (aws-lc-rs)
			let k = crate::props::c01::generate_key(alg, req["rsa_size"].as_u64().unwrap_or(0) as u8).map_err(|e| e.to_string())?;
			// the generated key signs here, before it is ever saved: the other build checks the signature
			let csr = rcgen::CertificateParams::default().serialize_request(&k).map_err(|e| e.to_string())?;
			Ok(json!({"pk8": hex(&k.serialize_der()), "pem": k.serialize_pem(), "spki": hex(&k.public_key_der()), "alg": alg_name(k.algorithm()), "csr": hex(csr.der())}))
		},
		#[cfg(feature = "crypto")]
		"importcsr" => {
			let der = unhex(req["der"].as_str().unwrap_or(""))?;
			let r = no_panic(|| rcgen::CertificateSigningRequestParams::from_der(&der.clone().into()))?;
			Ok(match r {
				Ok(p) => {
					use rcgen::PublicKeyData;
					json!({"accepted": true, "alg": alg_name(p.public_key.algorithm()), "raw": hex(p.public_key.der_bytes())})
				},
				Err(e) => json!({"accepted": false, "why": e.to_string()}),
			})
		},
		#[cfg(feature = "crypto")]
		"loadkey" => {
			let k = if let Some(p) = req["pem"].as_str() {
				rcgen::KeyPair::from_pem(p)
			} else {
				rcgen::KeyPair::try_from(unhex(req["pk8"].as_str().unwrap_or(""))?.as_slice())
			}
			.map_err(|e| e.to_string())?;
			// sign something with the loaded key so that the caller can verify it
			let csr = rcgen::CertificateParams::default().serialize_request(&k).map_err(|e| e.to_string())?;
			Ok(json!({"spki": hex(&k.public_key_der()), "alg": alg_name(k.algorithm()), "csr": hex(csr.der())}))
		},
		#[cfg(feature = "crypto")]
		"exportkey" => {
			// a fixture key brought in through the loading route its `idx` selects, then saved
			let ks: KeySpec = serde_json::from_value(req["key"].clone()).map_err(|e| format!("INTERNAL: child cannot read the key spec: {e}"))?;
			let k = keys::make_key(&ks)?;
			Ok(json!({"pk8": hex(&k.serialize_der()), "pem": k.serialize_pem(), "spki": hex(&k.public_key_der()), "alg": alg_name(k.algorithm())}))
		},
		"verify" => {
			let ok = native_verify(
				req["alg"].as_str().unwrap_or(""),
				&unhex(req["raw"].as_str().unwrap_or(""))?,
				&unhex(req["msg"].as_str().unwrap_or(""))?,
				&unhex(req["sig"].as_str().unwrap_or(""))?,
			);
			Ok(json!({"verified": ok}))
		},
		_ => Err(format!("unknown op {op}")),
	})();
	match r {
		Ok(mut v) => {
			v["ok"] = json!(true);
			v
		},
		Err(e) => json!({"ok": false, "err": e}),
	}
}

/// `rv c16-child`: one JSON request per line on stdin, one JSON response per line on stdout.
pub fn child_main() {
	let stdin = std::io::stdin();
	let mut out = std::io::stdout();
	for line in stdin.lock().lines() {
		let Ok(line) = line else { break };
		if line.trim().is_empty() {
			continue;
		}
		let resp = match serde_json::from_str::<Value>(&line) {
			Ok(req) => handle(&req),
			Err(e) => json!({"ok": false, "err": format!("bad request: {e}")}),
		};
		let _ = writeln!(out, "{}", resp);
		let _ = out.flush();
	}
}

// ---------------------------------------------------------------------------------------------
// parent side

struct Peer {
	_child: Child,
	stdin: ChildStdin,
	stdout: BufReader<ChildStdout>,
}

thread_local! {
	static PEERS: RefCell<Option<(Peer, Peer)>> = RefCell::new(None);
}

fn spawn(variant: &str) -> Result<Peer, String> {
	let exe = format!("{}/target/{variant}/release/rv", keys::verif_root());
	let mut child = Command::new(&exe)
		.arg("c16-child")
		.stdin(Stdio::piped())
		.stdout(Stdio::piped())
		.stderr(Stdio::null())
		.spawn()
		.map_err(|e| format!("INTERNAL: cannot start {exe}: {e}"))?;
	let stdin = child.stdin.take().unwrap();
	let stdout = BufReader::new(child.stdout.take().unwrap());
	Ok(Peer { _child: child, stdin, stdout })
}

fn ask(p: &mut Peer, req: &Value) -> Result<Value, String> {
	writeln!(p.stdin, "{}", req).map_err(|e| format!("INTERNAL: child pipe: {e}"))?;
	p.stdin.flush().map_err(|e| format!("INTERNAL: child pipe: {e}"))?;
	let mut line = String::new();
	p.stdout.read_line(&mut line).map_err(|e| format!("INTERNAL: child pipe: {e}"))?;
	if line.is_empty() {
		return Err("INTERNAL: child process ended".into());
	}
	serde_json::from_str(&line).map_err(|e| format!("INTERNAL: child answer unreadable: {e}"))
}

fn with_peers<T>(f: impl FnOnce(&mut Peer, &mut Peer) -> Result<T, String>) -> Result<T, String> {
	PEERS.with(|p| {
		let mut p = p.borrow_mut();
		if p.is_none() {
			*p = Some((spawn("aws")?, spawn("nocrypto")?));
		}
		let (a, n) = p.as_mut().unwrap();
		let r = f(a, n);
		if matches!(&r, Err(e) if e.starts_with("INTERNAL")) {
			*p = None;
		}
		r
	})
}

thread_local! {
	static BOTH_PEER: RefCell<Option<Peer>> = RefCell::new(None);
}

/// The build with aws-lc-rs in charge and `ring` + `zeroize` switched on as well.
fn with_both_peer<T>(f: impl FnOnce(&mut Peer) -> Result<T, String>) -> Result<T, String> {
	BOTH_PEER.with(|p| {
		let mut p = p.borrow_mut();
		if p.is_none() {
			*p = Some(spawn("both")?);
		}
		let r = f(p.as_mut().unwrap());
		if matches!(&r, Err(e) if e.starts_with("INTERNAL")) {
			*p = None;
		}
		r
	})
}

fn signer_of(a: &Art) -> KeySpec {
	match a {
		Art::Cert(c) => signer_key(c),
		Art::Csr(c) => c.key,
		Art::Crl(c) => c.issuer.key,
	}
}

fn alg_label(k: &KeySpec) -> &'static str {
	match k.alg {
		KeyAlg::P256 => "ECDSA_P256_SHA256",
		KeyAlg::P384 => "ECDSA_P384_SHA384",
		KeyAlg::P521 => "ECDSA_P521_SHA512",
		KeyAlg::Ed25519 => "ED25519",
		_ => match k.rsa_hash {
			RsaHash::Sha256 => "RSA_SHA256",
			RsaHash::Sha384 => "RSA_SHA384",
			RsaHash::Sha512 => "RSA_SHA512",
		},
	}
}

/// Does the crypto-less build have everything it needs for this artefact (explicit serial,
/// pre-specified key identifiers)?
fn nocrypto_expressible(a: &Art) -> bool {
	let pre = |k: &KidSpec| matches!(k, KidSpec::Pre(_));
	match a {
		Art::Cert(c) => c.spec.serial.is_some() && pre(&c.spec.kid) && c.issuer.as_ref().map_or(true, |i| pre(&i.spec.kid) && i.spec.serial.is_some()) && c.pk_source == PkSource::KeyPair,
		Art::Csr(c) => pre(&c.spec.kid),
		Art::Crl(c) => pre(&c.crl.kid) && pre(&c.issuer.spec.kid) && c.issuer.spec.serial.is_some(),
	}
}

pub fn check_tbs(a: &Art, info: &mut CaseInfo) -> Result<(), String> {
	let signer = signer_of(a);
	info.class(format!("signer:{}", signer.label()));
	let (tbs, sig, _full) = art_tbs(a).map_err(|e| format!("ring build: {e}"))?;
	let with_nc = nocrypto_expressible(a);
	info.class(if with_nc { "three-way" } else { "ring-vs-aws" });
	info.nontrivial = match a {
		Art::Cert(c) => !c.spec.ext_fields_set().is_empty(),
		Art::Csr(c) => !c.spec.ext_fields_set().is_empty() || !c.attrs.is_empty(),
		Art::Crl(c) => !c.crl.revoked.is_empty(),
	};
	let req = json!({"op": "tbs", "art": a});
	with_peers(|aws, nc| {
		let r = ask(aws, &req)?;
		if r["ok"] != json!(true) {
			if r["err"].as_str().map_or(false, |e| e.starts_with("INTERNAL")) {
				return Err(r["err"].as_str().unwrap().to_string());
			}
			return Err(format!("the aws-lc-rs build fails where the ring build succeeds: {}", r["err"]));
		}
		if r["tbs"].as_str() != Some(hex(&tbs).as_str()) {
			return Err(format!("to-be-signed bytes differ between the ring and aws-lc-rs builds:\n  ring {}\n  aws  {}", hex(&tbs), r["tbs"].as_str().unwrap_or("")));
		}
		// the aws-made signature verifies with ring, the ring-made one with aws-lc-rs, both with OpenSSL
		let aws_sig = unhex(r["sig"].as_str().unwrap_or(""))?;
		verify_sig(&signer, &tbs, &aws_sig).map_err(|e| format!("artefact signed by the aws-lc-rs build: {e}"))?;
		verify_sig(&signer, &tbs, &sig).map_err(|e| format!("artefact signed by the ring build: {e}"))?;
		let raw = &keys::fixture(&signer).raw_public;
		if native_verify(alg_label(&signer), raw, &tbs, &aws_sig) == Some(false) {
			return Err("a signature made by the aws-lc-rs build does not verify with ring".into());
		}
		let v = ask(aws, &json!({"op": "verify", "alg": alg_label(&signer), "raw": hex(raw), "msg": hex(&tbs), "sig": hex(&sig)}))?;
		if v["verified"] == json!(false) {
			return Err("a signature made by the ring build does not verify with aws-lc-rs".into());
		}
		#[cfg(feature = "crypto")]
		if let Art::Csr(_) = a {
			// the request made here is offered to the other build's parser: same verdict, same algorithm
			use rcgen::PublicKeyData;
			let mine = rcgen::CertificateSigningRequestParams::from_der(&_full.clone().into());
			let theirs = ask(aws, &json!({"op": "importcsr", "der": hex(&_full)}))?;
			if theirs["ok"] != json!(true) {
				return Err(format!("INTERNAL: importcsr failed in the aws-lc-rs child: {}", theirs["err"]));
			}
			match (&mine, theirs["accepted"] == json!(true)) {
				(Ok(p), true) => {
					if Some(alg_name(p.public_key.algorithm()).as_str()) != theirs["alg"].as_str() {
						return Err(format!("the builds read different key algorithms from the same request: ring {} / aws-lc-rs {}", alg_name(p.public_key.algorithm()), theirs["alg"]));
					}
				},
				(Err(_), false) => {},
				(Ok(_), false) => return Err(format!("a request the ring build parses is refused by the aws-lc-rs build: {}", theirs["why"])),
				(Err(e), true) => return Err(format!("a request the aws-lc-rs build parses is refused by the ring build: {e}")),
			}
		}
		if with_nc {
			let r = ask(nc, &req)?;
			if r["ok"] != json!(true) {
				if r["err"].as_str().map_or(false, |e| e.starts_with("INTERNAL")) {
					return Err(r["err"].as_str().unwrap().to_string());
				}
				return Err(format!("the crypto-less build fails where the ring build succeeds: {}", r["err"]));
			}
			if r["tbs"].as_str() != Some(hex(&tbs).as_str()) {
				return Err(format!("to-be-signed bytes differ between the ring and crypto-less builds:\n  ring     {}\n  nocrypto {}", hex(&tbs), r["tbs"].as_str().unwrap_or("")));
			}
		}
		Ok(())
	})
}

/// Key exchange between the back ends.
#[derive(Clone, Debug, Serialize, Deserialize, PartialEq, Eq, Hash)]
pub struct KeyXchg {
	pub alg: u8,
	pub ring_to_aws: bool,
	pub pem: bool,
}

#[cfg(feature = "crypto")]
pub fn check_keyx(k: &KeyXchg, info: &mut CaseInfo) -> Result<(), String> {
	// RSA keys can only be generated by the aws-lc-rs build
	let names: &[&str] = if k.ring_to_aws { &["ECDSA_P256_SHA256", "ECDSA_P384_SHA384", "ED25519"] } else { &["ECDSA_P256_SHA256", "ECDSA_P384_SHA384", "ED25519", "RSA_SHA256", "RSA_SHA384", "RSA_SHA512"] };
	let name = names[k.alg as usize % names.len()];
	info.nontrivial = true;
	info.class(format!("{}:{}:{}", name, if k.ring_to_aws { "ring->aws" } else { "aws->ring" }, if k.pem { "pem" } else { "der" }));
	let alg = alg_by_name(name).unwrap();
	with_peers(|aws, _| {
		if k.ring_to_aws {
			let key = rcgen::KeyPair::generate_for(alg).map_err(|e| e.to_string())?;
			let req = if k.pem { json!({"op": "loadkey", "pem": key.serialize_pem()}) } else { json!({"op": "loadkey", "pk8": hex(&key.serialize_der())}) };
			let r = ask(aws, &req)?;
			if r["ok"] != json!(true) {
				return Err(format!("a {name} key exported by the ring build does not load in the aws-lc-rs build: {}", r["err"]));
			}
			if r["spki"].as_str() != Some(hex(&key.public_key_der()).as_str()) || r["alg"].as_str() != Some(name) {
				return Err(format!("a {name} key exported by ring loads in aws-lc-rs with a different public key or algorithm ({})", r["alg"]));
			}
			// the request signed there with the loaded key verifies here under the original key
			let csr = unhex(r["csr"].as_str().unwrap_or(""))?;
			rcgen::CertificateSigningRequestParams::from_der(&csr.into()).map_err(|e| format!("request signed in aws-lc-rs with a ring-exported key does not verify: {e}"))?;
		} else {
			// RSA: half through generate_for, the rest through generate_rsa_for (2048 twice as often as 3072 / 4096)
			let rsa_size: u8 = if name.starts_with("RSA_") { [0, 0, 0, 0, 1, 1, 2, 3][(k.alg as usize / names.len()) % 8] } else { 0 };
			if rsa_size != 0 {
				info.class(format!("generate_rsa_for:{}", [0, 2048, 3072, 4096][rsa_size as usize]));
			}
			let r = ask(aws, &json!({"op": "genkey", "alg": name, "rsa_size": rsa_size}))?;
			if r["ok"] != json!(true) {
				return Err(format!("INTERNAL: aws genkey failed: {}", r["err"]));
			}
			let key = if k.pem {
				rcgen::KeyPair::from_pem(r["pem"].as_str().unwrap_or(""))
			} else {
				rcgen::KeyPair::try_from(unhex(r["pk8"].as_str().unwrap_or(""))?.as_slice())
			}
			.map_err(|e| format!("a {name} key exported by the aws-lc-rs build does not load in the ring build: {e}"))?;
			let rsa = name.starts_with("RSA_");
			// (auto-detection labels every RSA key RSA_SHA256)
			if Some(hex(&key.public_key_der()).as_str()) != r["spki"].as_str() || (!rsa && alg_name(key.algorithm()) != name) {
				return Err(format!("a {name} key exported by aws-lc-rs loads in ring with a different public key or algorithm"));
			}
			if rsa_size != 0 {
				let bits = openssl::pkey::PKey::public_key_from_der(&key.public_key_der()).map_err(|e| e.to_string())?.bits();
				if bits != [0, 2048, 3072, 4096][rsa_size as usize] {
					return Err(format!("generate_rsa_for was asked for {} bits; the exported key has {bits}", [0, 2048, 3072, 4096][rsa_size as usize]));
				}
			}
			// what the freshly generated key signed over there verifies here under the declared algorithm
			let csr = unhex(r["csr"].as_str().unwrap_or(""))?;
			let (d, _) = decode_csr(&csr)?;
			let (fam, digest) = crate::props::c06::classify_alg(alg).ok_or("unknown algorithm")?;
			let as_spec = KeySpec { alg: fam, idx: 0, rsa_hash: match name { "RSA_SHA384" => RsaHash::Sha384, "RSA_SHA512" => RsaHash::Sha512, _ => RsaHash::Sha256 }, remote: false };
			if d.outer_alg.raw != keys::rfc_sig_alg_id(&as_spec) {
				return Err(format!("a request signed by a {name} key generated in the aws-lc-rs build declares another signature algorithm"));
			}
			if !keys::openssl_verify(&d.spki.raw, digest.map(|x| x.md()), &d.cri_raw, &d.signature)? {
				return Err(format!("a request signed by a {name} key freshly generated in the aws-lc-rs build does not verify under the declared algorithm"));
			}
			if rcgen::CertificateSigningRequestParams::from_der(&csr.into()).is_err() {
				return Err(format!("a request signed by a {name} key freshly generated in the aws-lc-rs build is refused by the ring build"));
			}
		}
		Ok(())
	})
}

#[cfg(not(feature = "crypto"))]
pub fn check_keyx(_: &KeyXchg, _: &mut CaseInfo) -> Result<(), String> {
	Ok(())
}

/// A fixture key loaded in one build (through every loading route, SEC1 / PKCS#1 under aws-lc-rs
/// included), saved there, and loaded in the other build through the auto-detecting and the
/// explicit PKCS#8 loaders.
#[derive(Clone, Debug, Serialize, Deserialize, PartialEq, Eq, Hash)]
pub struct LoadedKeyXchg {
	pub key: KeySpec,
	pub aws_to_ring: bool,
	pub pem: bool,
}

#[cfg(feature = "crypto")]
pub fn check_loaded_keyx(k: &LoadedKeyXchg, info: &mut CaseInfo) -> Result<(), String> {
	let mut ks = k.key;
	ks.remote = false;
	info.nontrivial = true;
	let fx = keys::fixture(&ks);
	let route = (ks.idx as usize / keys::fixtures().pools[&ks.alg].len()) % keys::LOADER_ROUTES;
	info.class(format!("{:?}:route{}:{}:{}", ks.alg, route, if k.aws_to_ring { "aws->ring" } else { "ring->aws" }, if k.pem { "pem" } else { "der" }));
	let want_alg = alg_name(keys::rcgen_alg(&ks));
	// every third aws->ring case asks the build that has `ring` and `zeroize` switched on as well
	let use_both = k.aws_to_ring && ks.idx % 3 == 0;
	if use_both {
		info.class("exporting-build:aws+ring+zeroize");
	}
	let run = |aws: &mut Peer| -> Result<(), String> {
		if k.aws_to_ring {
			let r = ask(aws, &json!({"op": "exportkey", "key": ks}))?;
			if r["ok"] != json!(true) {
				return Err(format!("INTERNAL: the aws-lc-rs child cannot load the fixture key: {}", r["err"]));
			}
			let pk8 = unhex(r["pk8"].as_str().unwrap_or(""))?;
			let pem = r["pem"].as_str().unwrap_or("").to_string();
			let alg = keys::rcgen_alg(&ks);
			let loaded = if k.pem {
				vec![("from_pem", rcgen::KeyPair::from_pem(&pem)), ("from_pkcs8_pem_and_sign_algo", rcgen::KeyPair::from_pkcs8_pem_and_sign_algo(&pem, alg))]
			} else {
				vec![
					("try_from(&[u8])", rcgen::KeyPair::try_from(pk8.as_slice())),
					("from_pkcs8_der_and_sign_algo", rcgen::KeyPair::from_pkcs8_der_and_sign_algo(&pki_types::PrivatePkcs8KeyDer::from(pk8.clone()), alg)),
				]
			};
			for (how, r2) in loaded {
				let key = r2.map_err(|e| format!("a {:?} key loaded (route {route}) and saved by the aws-lc-rs build does not load in the ring build through {how}: {e}", ks.alg))?;
				if key.public_key_der() != fx.spki {
					return Err(format!("a key saved by the aws-lc-rs build loads in ring ({how}) with a different public key"));
				}
				if how.contains("sign_algo") && alg_name(key.algorithm()) != want_alg {
					return Err(format!("a key saved by the aws-lc-rs build loads in ring ({how}) as {}", alg_name(key.algorithm())));
				}
			}
			if r["spki"].as_str() != Some(hex(&fx.spki).as_str()) {
				return Err("the aws-lc-rs build reports a different public key for the fixture key".into());
			}
		} else {
			let key = keys::make_key(&ks)?;
			let req = if k.pem { json!({"op": "loadkey", "pem": key.serialize_pem()}) } else { json!({"op": "loadkey", "pk8": hex(&key.serialize_der())}) };
			let r = ask(aws, &req)?;
			if r["ok"] != json!(true) {
				return Err(format!("a {:?} key loaded (route {route}) and saved by the ring build does not load in the aws-lc-rs build: {}", ks.alg, r["err"]));
			}
			if r["spki"].as_str() != Some(hex(&fx.spki).as_str()) {
				return Err("a key saved by the ring build loads in aws-lc-rs with a different public key".into());
			}
		}
		Ok(())
	};
	if use_both {
		with_both_peer(run)
	} else {
		with_peers(|aws, _| run(aws))
	}
}

#[cfg(not(feature = "crypto"))]
pub fn check_loaded_keyx(_: &LoadedKeyXchg, _: &mut CaseInfo) -> Result<(), String> {
	Ok(())
}

fn common_art() -> BoxedStrategy<Art> {
	// algorithms common to both back ends; half of the cases expressible without a crypto library
	let fix = |mut c: CertCase, pre: bool, kid_bytes: Vec<u8>| {
		let fixkey = |k: &mut KeySpec| {
			if k.alg == KeyAlg::P521 {
				k.alg = KeyAlg::P384;
			}
		};
		fixkey(&mut c.key);
		if let Some(i) = c.issuer.as_mut() {
			fixkey(&mut i.key);
		}
		if pre {
			c.spec.kid = KidSpec::Pre(Hex(kid_bytes.clone()));
			if c.spec.serial.is_none() {
				c.spec.serial = Some(Hex(vec![0x12, 0x34]));
			}
			c.pk_source = PkSource::KeyPair;
			if let Some(i) = c.issuer.as_mut() {
				// the issuer's own identifier: the same bytes in a third of the cases, other bytes otherwise
				let mut ib = kid_bytes.clone();
				if ib.len() % 3 != 0 {
					ib.reverse();
					ib.push(0x49);
				}
				i.spec.kid = KidSpec::Pre(Hex(ib));
				i.spec.serial = Some(Hex(vec![0x56]));
			}
		}
		c
	};
	prop_oneof![
		3 => (cert_case(CertGenOpts::FULL, false), any::<bool>(), proptest::collection::vec(any::<u8>(), 0..20)).prop_map(move |(c, pre, kb)| Art::Cert(fix(c, pre, kb))),
		1 => (csr_case(false), any::<bool>()).prop_map(|(mut c, pre)| {
			if c.key.alg == KeyAlg::P521 {
				c.key.alg = KeyAlg::P256;
			}
			if pre {
				c.spec.kid = KidSpec::Pre(Hex(vec![1, 2]));
			}
			Art::Csr(c)
		}),
		1 => (crl_case(false, false), any::<bool>(), proptest::collection::vec(any::<u8>(), 0..20)).prop_map(|(mut c, pre, kb)| {
			if c.issuer.key.alg == KeyAlg::P521 {
				c.issuer.key.alg = KeyAlg::P256;
			}
			if pre {
				c.crl.kid = KidSpec::Pre(Hex(kb.clone()));
				let mut ib = kb;
				if ib.len() % 3 != 0 {
					ib.reverse();
					ib.push(0x49);
				}
				c.issuer.spec.kid = KidSpec::Pre(Hex(ib));
				c.issuer.spec.serial = Some(Hex(vec![9]));
			}
			Art::Crl(c)
		}),
	]
	.boxed()
}

pub fn def() -> PropertyDef {
	let _ = mk::KU_ALL;
	PropertyDef {
		id: "C16",
		rule: "Feature sets: the complete product {ring, aws_lc_rs, none} x {pem} x {x509-parser} x {zeroize} for rcgen plus {ring, aws_lc_rs} for rustls-cert-gen, each compiled with cargo check (driven by /verif/check; exhaustive). Differential: certificates / CSRs / CRLs over the C02/C07/C08 spaces with algorithms common to both back ends are generated by the ring build (parent) and by persistent child processes of the aws-lc-rs build and, when the case is expressible without a crypto library (explicit serial, pre-specified key identifiers), of the crypto-less build (remote signer); to-be-signed bytes must be byte-identical, signatures made by one back end must verify with the other's own verifier and with OpenSSL; keys generated (generate_for; under aws-lc-rs also generate_rsa_for with 2048/3072/4096 bits) and exported (DER/PEM) by one back end must load in the other with the same public key, size and algorithm, and so must fixture keys that one build loaded through any of its loading routes (SEC1 / PKCS#1 documents under aws-lc-rs included) and saved. Non-trivial = artefact with at least one extension / attribute / entry; every key exchange; every non-default feature set.",
		assumptions: vec!["the children run the same generator-independent Spec -> rcgen mapping (mk.rs), so a difference in output is a difference between the rcgen builds", "fips is not covered (needs a Go toolchain; not in the property's feature list)"],
		subs: vec![
			prop_sub("tbs-differential", 16_000, 200_000, common_art, check_tbs),
			prop_sub("key-exchange", 2_400, 20_000, || (any::<u8>(), any::<bool>(), any::<bool>()).prop_map(|(alg, ring_to_aws, pem)| KeyXchg { alg, ring_to_aws, pem }).boxed(), check_keyx),
			prop_sub("loaded-key-exchange", 6_000, 60_000, || {
				// algorithms both back ends load (the parent is the ring build)
				(crate::gen::key_spec(), any::<bool>(), any::<bool>()).prop_map(|(key, aws_to_ring, pem)| LoadedKeyXchg { key, aws_to_ring, pem }).boxed()
			}, check_loaded_keyx),
		],
	}
}
