//! C06 — CSR acceptance is sound and issuance binds the requester's key.

use std::collections::BTreeSet;

use proptest::prelude::*;
use serde::{Deserialize, Serialize};

use crate::der::{self, Lints};
use crate::forge::{self, FAttr, FDigest, FName};
use crate::gen;
use crate::keys;
use crate::mk;
use crate::props::common::*;
use crate::runner::*;
use crate::spec::*;
use crate::x509::{self, ExtValue};

/// (key family, digest) of one of rcgen's public algorithm statics.
pub fn classify_alg(a: &rcgen::SignatureAlgorithm) -> Option<(KeyAlg, Option<FDigest>)> {
	if a == &rcgen::PKCS_ECDSA_P256_SHA256 {
		return Some((KeyAlg::P256, Some(FDigest::Sha256)));
	}
	if a == &rcgen::PKCS_ECDSA_P384_SHA384 {
		return Some((KeyAlg::P384, Some(FDigest::Sha384)));
	}
	#[cfg(feature = "aws_be")]
	if a == &rcgen::PKCS_ECDSA_P521_SHA512 {
		return Some((KeyAlg::P521, Some(FDigest::Sha512)));
	}
	if a == &rcgen::PKCS_ED25519 {
		return Some((KeyAlg::Ed25519, None));
	}
	if a == &rcgen::PKCS_RSA_SHA256 {
		return Some((KeyAlg::Rsa2048, Some(FDigest::Sha256)));
	}
	if a == &rcgen::PKCS_RSA_SHA384 {
		return Some((KeyAlg::Rsa2048, Some(FDigest::Sha384)));
	}
	if a == &rcgen::PKCS_RSA_SHA512 {
		return Some((KeyAlg::Rsa2048, Some(FDigest::Sha512)));
	}
	None
}

/// Soundness of one acceptance: the signature must verify over the request's
/// certificationRequestInfo bytes under the public key rcgen reports (raw bytes + algorithm).
pub fn check_accepted_pub(bytes: &[u8], p: &rcgen::CertificateSigningRequestParams) -> Result<(), String> {
	check_accepted(bytes, p)
}

fn check_accepted(bytes: &[u8], p: &rcgen::CertificateSigningRequestParams) -> Result<(), String> {
	use rcgen::PublicKeyData;
	// Locate the signed bytes, the embedded key bits and the signature. The strict decoder is
	// tried first; a mutant may be accepted through a leniency of the parser that leaves those
	// three untouched (e.g. a flipped constructed bit on the outer AlgorithmIdentifier), which
	// the property allows, so a tag-agnostic split is the fallback.
	let l = Lints::new();
	let (cri_raw, key_bits, signature) = match x509::parse_csr(bytes, &l) {
		Ok(c) => (c.cri_raw, c.spki.key_bits, c.signature),
		Err(e) => match lenient_split(bytes) {
			Some(t) => t,
			None => {
				if forge::openssl_accepts_csr(bytes) {
					return Ok(());
				}
				return Err(format!("rcgen accepts a byte string in which no certificationRequestInfo / key / signature can be located ({e})"));
			},
		},
	};
	let (family, digest) = classify_alg(p.public_key.algorithm()).ok_or("accepted request reports an unknown algorithm")?;
	let raw = p.public_key.der_bytes();
	if raw != key_bits.as_slice() {
		return Err(format!(
			"the public key rcgen reports ({}) is not the key embedded in the request ({})",
			der::hex(raw),
			der::hex(&key_bits)
		));
	}
	// SubjectPublicKeyInfo rebuilt from what rcgen reports: a mislabelled key cannot verify
	let spki = der::enc_seq(&[keys::rfc_spki_alg_id(family), forge::enc_bits(raw, 0)]);
	let ok = keys::openssl_verify(&spki, digest.map(|d| d.md()), &cri_raw, &signature).unwrap_or(false);
	if !ok {
		return Err(format!(
			"rcgen accepts the request and reports a {:?} key with digest {:?}, but the signature does not verify over the certificationRequestInfo bytes under that key",
			family, digest
		));
	}
	Ok(())
}

/// Tag-agnostic split of `SEQUENCE { cri, alg, signature }` and of the CRI's third element.
fn lenient_split(bytes: &[u8]) -> Option<(Vec<u8>, Vec<u8>, Vec<u8>)> {
	let l = Lints::new();
	let (outer, _) = der::read_tlv(bytes, &l).ok()?;
	let parts = der::children(outer.content, &l).ok()?;
	if parts.len() != 3 {
		return None;
	}
	let cri = parts[0];
	let sig = parts[2].content;
	if sig.is_empty() {
		return None;
	}
	let cri_parts = der::children(cri.content, &l).ok()?;
	if cri_parts.len() < 3 {
		return None;
	}
	let spki_parts = der::children(cri_parts[2].content, &l).ok()?;
	if spki_parts.len() != 2 || spki_parts[1].content.is_empty() {
		return None;
	}
	Some((cri.raw.to_vec(), spki_parts[1].content[1..].to_vec(), sig[1..].to_vec()))
}

fn ext_sets(exts: &[x509::Ext]) -> (Vec<x509::GeneralName>, BTreeSet<u32>, BTreeSet<Vec<u64>>) {
	let mut san = Vec::new();
	let mut ku = BTreeSet::new();
	let mut eku = BTreeSet::new();
	for e in exts {
		match &e.value {
			ExtValue::San(v) => san.extend(v.iter().cloned()),
			ExtValue::KeyUsage(b) => ku.extend(b.iter().copied()),
			ExtValue::Eku(v) => eku.extend(v.iter().cloned()),
			_ => {},
		}
	}
	(san, ku, eku)
}

/// Binding: the certificate issued from an accepted request carries the request's SPKI bytes,
/// subject, SANs, key usages and extended key usages.
fn check_binding(bytes: &[u8], p: rcgen::CertificateSigningRequestParams) -> Result<(), String> {
	let l = Lints::new();
	let req = x509::parse_csr(bytes, &l).map_err(|e| format!("harness cannot decode the accepted request: {e}"))?;
	let issuer_keyspec = KeySpec { alg: KeyAlg::Ed25519, idx: 1, rsa_hash: RsaHash::Sha256, remote: !cfg!(feature = "crypto") };
	let issuer_key = keys::make_key(&issuer_keyspec)?;
	let mut ispec = CertSpec::minimal();
	ispec.is_ca = IsCaSpec::CaUnconstrained;
	ispec.kid = KidSpec::Pre(Hex(vec![3; 8]));
	let issuer = mk::cert_params(&ispec)?.self_signed(&issuer_key).map_err(|e| e.to_string())?;
	let mut p = p;
	if !cfg!(feature = "crypto") {
		// no automatic serial without a crypto back end
		p.params.serial_number = Some(rcgen::SerialNumber::from_slice(&[0x2a]));
		p.params.key_identifier_method = rcgen::KeyIdMethod::PreSpecified(vec![9]);
	}
	let cert = p.signed_by(&issuer, &issuer_key).map_err(|e| format!("signed_by on an accepted request failed: {e}"))?;
	let (c, _) = decode_cert(cert.der())?;
	if c.spki.raw != req.spki.raw {
		return Err(format!(
			"issued certificate's SubjectPublicKeyInfo differs from the request's:\n  cert    {}\n  request {}",
			der::hex(&c.spki.raw),
			der::hex(&req.spki.raw)
		));
	}
	let key = |n: &x509::Name| n.rdns.iter().map(|r| r.iter().map(|a| (a.oid.clone(), a.tag, a.bytes.clone())).collect::<Vec<_>>()).collect::<Vec<_>>();
	if key(&c.subject) != key(&req.subject) {
		return Err("issued certificate's subject differs from the requested subject".into());
	}
	let req_exts: Vec<x509::Ext> = req.ext_requests.iter().flatten().cloned().collect();
	let (rsan, rku, reku) = ext_sets(&req_exts);
	let (csan, cku, ceku) = ext_sets(c.extensions.as_deref().unwrap_or(&[]));
	if rsan != csan {
		return Err(format!("issued certificate's SANs {:?} differ from the requested {:?}", csan, rsan));
	}
	if rku != cku {
		return Err(format!("issued certificate's key usages {:?} differ from the requested {:?}", cku, rku));
	}
	if reku != ceku {
		return Err(format!("issued certificate's extended key usages {:?} differ from the requested {:?}", ceku, reku));
	}
	// signed by the issuer, not by anything else
	verify_sig(&issuer_keyspec, &c.tbs_raw, &c.signature)
}

pub fn check_generated(case: &CsrCase, info: &mut CaseInfo) -> Result<(), String> {
	info.class(format!("key:{}", case.key.label()));
	let (csr, _) = build_csr(case)?;
	match rcgen::CertificateSigningRequestParams::from_der(csr.der()) {
		Ok(p) => {
			info.nontrivial = true;
			info.class("accepted");
			check_accepted(csr.der(), &p)?;
			check_binding(csr.der(), p)
		},
		Err(_) => {
			// acceptance of generated requests is C07's subject; refusing is always sound here
			info.class("refused");
			Ok(())
		},
	}
}

/// A request assembled by the harness and signed with OpenSSL.
#[derive(Clone, Debug, Serialize, Deserialize, PartialEq, Eq, Hash)]
pub struct ForeignCsr {
	pub key: KeySpec,
	pub digest: FDigest,
	pub subject: FName,
	/// SAN / KU / standard EKU request (in `spec`), plus `unsupported` extras
	pub spec: CertSpec,
	pub unsupported: Vec<Unsupported>,
	pub challenge_password: Option<String>,
	/// an attribute value of a string type rcgen's DN model does not have
	pub odd_string_subject: bool,
	/// 0 = the key's canonical SubjectPublicKeyInfo; 1 = NULL parameters toggled (omitted for RSA,
	/// added for EC / Ed25519 ... where they do not belong); 2 = long-form length in the SPKI header
	#[serde(default)]
	pub spki_variant: u8,
}

#[derive(Clone, Debug, Serialize, Deserialize, PartialEq, Eq, Hash)]
pub enum Unsupported {
	/// basicConstraints with cA FALSE (what a stock `openssl req` configuration asks for)
	BasicConstraintsFalse,
	BasicConstraints,
	NameConstraints,
	Custom,
	UnknownEku,
	SubjectKeyId,
	/// a subjectAltName entry of a form rcgen's `SanType` cannot hold (see `odd_general_name`)
	OddSanEntry(u8),
	/// NOT unsupported as such: the requested names are spread over two subjectAltName extensions in
	/// the same extension request. Refusing is fine; accepting must carry over all of them.
	SplitSan,
}

/// GeneralName forms outside `SanType`: otherName values that are not UTF8Strings (under well-known
/// and arbitrary type-ids), directoryName, registeredID, x400Address-like and ediPartyName-like tags.
pub fn odd_general_name(kind: u8) -> Vec<u8> {
	let other = |oid: &[u64], value: Vec<u8>| der::enc_tlv(0xa0, &[der::enc_oid(oid), der::enc_tlv(0xa0, &value)].concat());
	match kind % 10 {
		0 => other(&[1, 3, 6, 1, 5, 5, 7, 8, 7], der::enc_tlv(0x16, b"_imap.example.com")), // SRVName, IA5String
		1 => other(&[1, 2, 3, 4], der::enc_tlv(0x16, b"plain ia5")),
		2 => other(&[1, 3, 6, 1, 4, 1, 311, 20, 2, 3], der::enc_tlv(0x13, b"user at example")), // UPN type-id, PrintableString
		3 => other(&[1, 3, 6, 1, 5, 2, 2], der::enc_seq(&[der::enc_tlv(0xa0, &der::enc_tlv(0x1b, b"EXAMPLE.COM"))])), // KRB5PrincipalName-like
		4 => other(&[1, 3, 6, 1, 5, 5, 7, 8, 5], der::enc_tlv(0x1e, &[0, b'x', 0, b'y'])), // XmppAddr type-id, BMPString
		5 => other(&[1, 3, 6, 1, 5, 5, 7, 8, 9], der::enc_tlv(0x04, b"octets")),
		6 => der::enc_tlv(0xa4, &der::enc_seq(&[der::enc_tlv(0x31, &der::enc_seq(&[der::enc_oid(&[2, 5, 4, 3]), der::enc_tlv(0x0c, b"dir")]))])), // directoryName
		7 => der::enc_tlv(0x88, &[0x2a, 0x03, 0x04]), // registeredID 1.2.3.4
		8 => der::enc_tlv(0xa5, &der::enc_tlv(0xa1, &der::enc_tlv(0x0c, b"party"))), // ediPartyName
		_ => other(&[1, 3, 6, 1, 5, 5, 7, 8, 7], der::enc_tlv(0x0c, b"")[..0].to_vec()), // otherName with an empty value field
	}
}

fn foreign_subject() -> BoxedStrategy<FName> {
	(gen::dn(4, true, false), 0u8..10, gen::dn_value())
		.prop_map(|(dn, mode, v)| {
			let v = if v.admitted() { v } else { DnValueSpec::new(v.kind, "x") };
			let mut n = FName::from_dn(&dn);
			match mode {
				0 => {
					// CN=a, CN=b
					n.0.push(vec![FAttr { oid: vec![2, 5, 4, 3], kind: StrKind::Utf8, text: "a".into(), raw: None, oid_raw: None }]);
					n.0.push(vec![FAttr { oid: vec![2, 5, 4, 3], kind: v.kind, text: v.text, raw: None, oid_raw: None }]);
				},
				// the same attribute twice, value and all (OU=Operations, OU=Operations)
				2 => {
					let a = FAttr { oid: vec![2, 5, 4, 11], kind: v.kind, text: v.text, raw: None, oid_raw: None };
					n.0.insert(0, vec![a.clone()]);
					n.0.insert(1, vec![a]);
				},
				1 => {
					n.0.push(vec![
						FAttr { oid: vec![2, 5, 4, 3], kind: v.kind, text: v.text, raw: None, oid_raw: None },
						FAttr { oid: vec![2, 5, 4, 5], kind: StrKind::Printable, text: "7".into(), raw: None, oid_raw: None },
					]);
				},
				// legacy contents: Latin-1 octets in a T61String; octets above 0x7f in a PrintableString / IA5String
				3 => {
					let kind = [StrKind::Teletex, StrKind::Printable, StrKind::Ia5][v.text.len() % 3];
					n.0.push(vec![FAttr { oid: vec![2, 5, 4, 10], kind, text: String::new(), raw: Some(Hex(vec![b'C', b'a', b'f', 0xe9, b' ', 0xa0, 0xff])), oid_raw: None }]);
				},
				_ => {},
			}
			n
		})
		.boxed()
}

pub fn foreign_csr_strategy() -> BoxedStrategy<ForeignCsr> {
	foreign_csr()
}

fn foreign_csr() -> BoxedStrategy<ForeignCsr> {
	(
		validator_key().prop_map(|mut k| {
			k.remote = false;
			k
		}),
		prop::sample::select(vec![FDigest::Sha256, FDigest::Sha384, FDigest::Sha512]),
		foreign_subject(),
		gen::csr_spec(true, true, false),
		prop_oneof![
			6 => Just(vec![]),
			1 => Just(vec![Unsupported::BasicConstraints]),
			1 => Just(vec![Unsupported::BasicConstraintsFalse]),
			1 => Just(vec![Unsupported::BasicConstraintsFalse, Unsupported::SubjectKeyId]),
			1 => Just(vec![Unsupported::NameConstraints]),
			1 => Just(vec![Unsupported::Custom]),
			1 => Just(vec![Unsupported::UnknownEku]),
			1 => Just(vec![Unsupported::SubjectKeyId]),
			2 => (0u8..10).prop_map(|k| vec![Unsupported::OddSanEntry(k)]),
			1 => Just(vec![Unsupported::SplitSan]),
		],
		prop::option::weighted(0.3, "[a-zA-Z0-9]{1,10}"),
		prop::bool::weighted(0.05),
		prop_oneof![8 => Just(0u8), 1 => Just(1u8), 1 => Just(2u8)],
	)
		.prop_map(|(key, digest, subject, spec, unsupported, challenge_password, odd_string_subject, spki_variant)| ForeignCsr {
			key,
			digest,
			subject,
			spec,
			unsupported,
			challenge_password,
			odd_string_subject,
			spki_variant,
		})
		.boxed()
}

/// The key's SubjectPublicKeyInfo in a valid-BER but non-canonical / unusual encoding.
pub fn variant_spki(k: &KeySpec, variant: u8) -> Vec<u8> {
	let fx = keys::fixture(k);
	match variant {
		1 => {
			let alg = keys::rfc_spki_alg_id(k.alg);
			// toggle the NULL parameters
			let l = Lints::new();
			let t = der::read_single(&alg, &l, "alg").unwrap();
			let parts = der::children(t.content, &l).unwrap();
			let new_alg = if k.is_rsa() {
				der::enc_seq(&[parts[0].raw.to_vec()])
			} else if parts.len() == 1 {
				der::enc_seq(&[parts[0].raw.to_vec(), vec![0x05, 0x00]])
			} else {
				return fx.spki.clone();
			};
			der::enc_seq(&[new_alg, forge::enc_bits(&fx.raw_public, 0)])
		},
		2 => {
			// long-form length octets although the short form would do / one extra length octet
			let l = Lints::new();
			let t = der::read_single(&fx.spki, &l, "spki").unwrap();
			let n = t.content.len();
			let mut v = vec![0x30];
			if n < 0x80 {
				v.extend_from_slice(&[0x81, n as u8]);
			} else if n < 0x100 {
				v.extend_from_slice(&[0x82, 0x00, n as u8]);
			} else {
				v.extend_from_slice(&[0x83, 0x00, (n >> 8) as u8, n as u8]);
			}
			v.extend_from_slice(t.content);
			v
		},
		_ => fx.spki.clone(),
	}
}

pub fn forge_foreign(f: &ForeignCsr) -> Result<Vec<u8>, String> {
	let mut spec = f.spec.clone();
	spec.dn = DnSpec(vec![]); // SAN criticality irrelevant for requests
	let mut exts = forge::spec_extensions(&spec, None, None);
	for u in &f.unsupported {
		match u {
			Unsupported::BasicConstraints => exts.push(forge::enc_ext(x509::OID_BC, true, &der::enc_seq(&[forge::enc_bool(true)]))),
			Unsupported::BasicConstraintsFalse => exts.push(forge::enc_ext(x509::OID_BC, true, &der::enc_seq(&[]))),
			Unsupported::NameConstraints => exts.push(forge::enc_ext(
				x509::OID_NC,
				true,
				&der::enc_seq(&[der::enc_tlv(0xa0, &der::enc_seq(&[der::enc_tlv(0x82, b"example.com")]))]),
			)),
			Unsupported::Custom => exts.push(forge::enc_ext(&[1, 3, 6, 1, 4, 1, 55555, 1], false, &der::enc_tlv(0x04, b"x"))),
			Unsupported::UnknownEku => {
				// replace / add an EKU with an unknown purpose, next to known ones and anyExtendedKeyUsage
				exts.retain(|e| !e.windows(5).any(|w| w == [0x06, 0x03, 0x55, 0x1d, 0x25]));
				let unknown: &[u64] = [&[1u64, 3, 6, 1, 4, 1, 55555, 2][..], &[1, 3, 6, 1, 5, 5, 7, 3, 17], &[1, 3, 6, 1, 4, 1, 311, 20, 2, 2]][f.subject.0.len() % 3];
				let server = der::enc_oid(&[1, 3, 6, 1, 5, 5, 7, 3, 1]);
				let any = der::enc_oid(&[2, 5, 29, 37, 0]);
				let list = match spec.sans.len() % 5 {
					0 => vec![server, der::enc_oid(unknown)],
					1 => vec![any, der::enc_oid(unknown)],
					2 => vec![der::enc_oid(unknown), any, server],
					3 => vec![der::enc_oid(unknown)],
					_ => vec![server, any, der::enc_oid(unknown), der::enc_oid(&[1, 3, 6, 1, 5, 5, 7, 3, 9])],
				};
				exts.push(forge::enc_ext(x509::OID_EKU, false, &der::enc_seq(&list)));
			},
			Unsupported::SubjectKeyId => exts.push(forge::enc_ext(x509::OID_SKI, false, &der::enc_tlv(0x04, &[1, 2, 3, 4]))),
			Unsupported::SplitSan => {
				if spec.sans.len() >= 2 {
					exts.retain(|e| !e.windows(5).any(|w| w == [0x06, 0x03, 0x55, 0x1d, 0x11]));
					let names: Vec<Vec<u8>> = spec.sans.iter().map(forge::enc_general_name_san).collect();
					let cut = names.len() / 2;
					exts.insert(0, forge::enc_ext(x509::OID_SAN, true, &der::enc_seq(&names[..cut])));
					exts.push(forge::enc_ext(x509::OID_SAN, true, &der::enc_seq(&names[cut..])));
				}
			},
			Unsupported::OddSanEntry(kind) => {
				// the request's alternative names plus one entry of a form rcgen cannot carry over
				exts.retain(|e| !e.windows(5).any(|w| w == [0x06, 0x03, 0x55, 0x1d, 0x11]));
				let mut names: Vec<Vec<u8>> = spec.sans.iter().map(forge::enc_general_name_san).collect();
				let at = (*kind as usize / 10 + names.len() / 2).min(names.len());
				names.insert(at, odd_general_name(*kind));
				exts.push(forge::enc_ext(x509::OID_SAN, true, &der::enc_seq(&names)));
			},
		}
	}
	let mut attributes = Vec::new();
	if let Some(pw) = &f.challenge_password {
		attributes.push((vec![1, 2, 840, 113549, 1, 9, 7], der::enc_tlv(0x31, &der::enc_tlv(0x0c, pw.as_bytes()))));
	}
	let mut subject_der_override = None;
	if f.odd_string_subject {
		// CN as NumericString (tag 18): a string type DnValue cannot hold
		let atv = der::enc_seq(&[der::enc_oid(&[2, 5, 4, 3]), der::enc_tlv(0x12, b"12345")]);
		subject_der_override = Some(der::enc_seq(&[der::enc_tlv(0x31, &atv)]));
	}
	let fx = keys::fixture(&f.key);
	let spki = variant_spki(&f.key, f.spki_variant);
	if let Some(sd) = subject_der_override {
		// assemble by hand because FName only knows rcgen's six kinds
		let mut attrs: Vec<Vec<u8>> = Vec::new();
		if !exts.is_empty() {
			attrs.push(der::enc_seq(&[der::enc_oid(x509::OID_EXT_REQ), der::enc_tlv(0x31, &der::enc_seq(&exts))]));
		}
		let mut set = der::enc_set_of(&attrs);
		set[0] = 0xa0;
		let cri = der::enc_seq(&[der::enc_uint(0), sd, spki.clone(), set]);
		let digest = if f.key.alg == KeyAlg::Ed25519 { None } else { Some(f.digest.md()) };
		let sig = keys::openssl_sign(&fx.pkey, digest, &cri)?;
		return Ok(der::enc_seq(&[cri, forge::sig_alg_der(f.key.alg, f.digest), forge::enc_bits(&sig, 0)]));
	}
	forge::forge_csr(&forge::ForgeCsr { subject: &f.subject, spki: &spki, extensions: exts, attributes }, &f.key, f.digest)
}

pub fn check_foreign(f: &ForeignCsr, info: &mut CaseInfo) -> Result<(), String> {
	let bytes = forge_foreign(f)?;
	if f.spki_variant == 0 {
		if !forge::openssl_accepts_csr(&bytes) {
			return Err("INTERNAL: OpenSSL does not accept the forged request".into());
		}
	} else {
		// unusual SubjectPublicKeyInfo encodings: whether OpenSSL reads them is beside the point; if
		// rcgen accepts such a request the binding clause (byte-identical SPKI) still applies
		info.class(format!("spki-variant:{}:{}", f.spki_variant, if forge::openssl_accepts_csr(&bytes) { "openssl-accepts" } else { "openssl-refuses" }));
	}
	let natural = match f.key.alg {
		KeyAlg::P256 => FDigest::Sha256,
		KeyAlg::P384 => FDigest::Sha384,
		KeyAlg::P521 => FDigest::Sha512,
		_ => f.digest,
	};
	let pairing = if f.key.alg == KeyAlg::Ed25519 || natural == f.digest { "natural" } else { "cross" };
	info.class(format!("pairing:{pairing}:{:?}+{:?}", f.key.alg, if f.key.alg == KeyAlg::Ed25519 { None } else { Some(f.digest) }));
	let must_refuse = f.unsupported.iter().any(|u| !matches!(u, Unsupported::SplitSan)) || f.subject.has_repeated_type() || !f.subject.is_flat() || f.odd_string_subject;
	if must_refuse {
		info.class(format!("must-refuse:{}", if !f.unsupported.is_empty() { format!("{:?}", f.unsupported[0]) } else { "subject".into() }));
	}
	match rcgen::CertificateSigningRequestParams::from_der(&bytes.clone().into()) {
		Ok(p) => {
			info.nontrivial = true;
			info.class("accepted");
			check_accepted(&bytes, &p)?;
			if must_refuse {
				return Err(format!(
					"a request asking for something rcgen cannot carry over was accepted instead of refused (unsupported: {:?}, repeated subject types: {}, multi-valued RDN: {}, unsupported string type: {})",
					f.unsupported,
					f.subject.has_repeated_type(),
					!f.subject.is_flat(),
					f.odd_string_subject
				));
			}
			check_binding(&bytes, p)
		},
		Err(_) => {
			info.class("refused");
			Ok(())
		},
	}
}

/// A mutation of a valid request.
#[derive(Clone, Debug, Serialize, Deserialize, PartialEq, Eq, Hash)]
pub struct Mutation {
	/// 0 flip bit, 1 overwrite byte, 2 insert byte, 3 delete byte, 4 truncate, 5 overwrite run, 6 splice from elsewhere
	pub kind: u8,
	/// 0 anywhere, 1 certificationRequestInfo, 2 SubjectPublicKeyInfo, 3 signature
	pub region: u8,
	pub pos: u16,
	pub val: u8,
	pub len: u8,
}

pub fn mutation() -> impl Strategy<Value = Mutation> {
	(0u8..7, 0u8..4, any::<u16>(), any::<u8>(), 1u8..9).prop_map(|(kind, region, pos, val, len)| Mutation { kind, region, pos, val, len })
}

/// Applies a mutation; `regions` = [(start, end)) of whole, CRI, SPKI, signature.
pub fn apply_mutation(base: &[u8], m: &Mutation, regions: &[(usize, usize); 4]) -> Vec<u8> {
	let (a, b) = regions[m.region as usize % 4];
	let span = (b - a).max(1);
	// monotone mapping of the generated position (shrinks towards the region start)
	let off = a + ((m.pos as usize * span) >> 16);
	let off = off.min(base.len().saturating_sub(1));
	let mut v = base.to_vec();
	match m.kind % 7 {
		0 => v[off] ^= 1 << (m.val % 8),
		1 => v[off] = if v[off] == m.val { m.val.wrapping_add(1) } else { m.val },
		2 => v.insert(off, m.val),
		3 => {
			v.remove(off);
		},
		4 => v.truncate(off),
		5 => {
			for i in 0..m.len as usize {
				if off + i < v.len() {
					v[off + i] = m.val.wrapping_add(i as u8);
				}
			}
		},
		_ => {
			let src = (m.val as usize * base.len()) >> 8;
			for i in 0..m.len as usize {
				if off + i < v.len() && src + i < base.len() {
					v[off + i] = base[src + i];
				}
			}
		},
	}
	v
}

pub fn csr_regions(bytes: &[u8]) -> Option<[(usize, usize); 4]> {
	let l = Lints::new();
	let c = x509::parse_csr(bytes, &l).ok()?;
	let find = |needle: &[u8]| bytes.windows(needle.len()).position(|w| w == needle);
	let cri = find(&c.cri_raw)?;
	let spki = find(&c.spki.raw)?;
	let sig = find(&c.signature)?;
	Some([(0, bytes.len()), (cri, cri + c.cri_raw.len()), (spki, spki + c.spki.raw.len()), (sig, sig + c.signature.len())])
}

#[derive(Clone, Debug, Serialize, Deserialize, PartialEq, Eq, Hash)]
pub enum BaseCsr {
	Generated(CsrCase),
	Foreign(ForeignCsr),
}

#[derive(Clone, Debug, Serialize, Deserialize, PartialEq, Eq, Hash)]
pub struct MutantCase {
	pub base: BaseCsr,
	pub mutations: Vec<Mutation>,
}

pub fn check_mutants(mc: &MutantCase, info: &mut CaseInfo) -> Result<(), String> {
	let base = match &mc.base {
		BaseCsr::Generated(c) => build_csr(c)?.0.der().to_vec(),
		BaseCsr::Foreign(f) => forge_foreign(f)?,
	};
	let Some(regions) = csr_regions(&base) else { return Err("INTERNAL: base request does not decode".into()) };
	let (mut n, mut inside, mut accepted) = (0u64, 0u64, 0u64);
	for m in &mc.mutations {
		let mutant = apply_mutation(&base, m, &regions);
		if mutant == base {
			continue;
		}
		n += 1;
		if m.region % 4 != 0 {
			inside += 1;
		}
		let r = no_panic(|| rcgen::CertificateSigningRequestParams::from_der(&mutant.clone().into()));
		match r {
			Err(p) => return Err(format!("{p} while parsing a mutated request ({:?})", m)),
			Ok(Ok(p)) => {
				accepted += 1;
				check_accepted(&mutant, &p).map_err(|e| format!("mutant {:?} of a valid request: {e}", m))?;
				// an accepted mutant must leave the signed bytes, key and signature intact
				let l = Lints::new();
				if let (Ok(a), Ok(b)) = (x509::parse_csr(&base, &l), x509::parse_csr(&mutant, &l)) {
					if a.cri_raw != b.cri_raw && a.spki.raw == b.spki.raw && a.signature == b.signature {
						return Err(format!("mutant {:?} changes the signed bytes but is still accepted", m));
					}
				}
			},
			Ok(Err(_)) => {},
		}
	}
	info.weight = n;
	info.nontrivial = inside > 0;
	info.nontrivial_weight = inside.saturating_sub(1);
	info.class(format!("mutants-accepted:{}", if accepted > 0 { ">0" } else { "0" }));
	Ok(())
}

fn mutant_case() -> BoxedStrategy<MutantCase> {
	(
		prop_oneof![2 => csr_case(false).prop_map(BaseCsr::Generated), 1 => foreign_csr().prop_map(|mut f| {
			f.unsupported.clear();
			f.odd_string_subject = false;
			BaseCsr::Foreign(f)
		})],
		proptest::collection::vec(mutation(), 16..48),
	)
		.prop_map(|(base, mutations)| MutantCase { base, mutations })
		.boxed()
}

pub fn def() -> PropertyDef {
	PropertyDef {
		id: "C06",
		rule: "Byte strings offered as CSRs from three sources: (a) requests generated by rcgen over the C07 space for every key algorithm; (b) requests assembled by the harness encoder and signed by OpenSSL (every key type x SHA-256/384/512 incl. cross pairings such as P-384+SHA-256, subjects with repeated types / multi-valued RDNs / NumericString, supported and unsupported extension requests, challengePassword), each pre-accepted by OpenSSL's own parser and verifier; (c) 16..48 mutations (bit flip, overwrite, insert, delete, truncate, run overwrite, splice; offsets biased to CRI / SPKI / signature) per base request. Oracle: accepted => OpenSSL verifies the signature over the exact CRI bytes under a key rebuilt from the raw bytes and algorithm rcgen reports; issued certificate carries the request's SPKI bytes, subject, SANs, KU and EKU sets; unsupported requests must be refused. Non-trivial = accepted request, or mutant landing inside CRI/SPKI/signature.",
		assumptions: vec!["OpenSSL EVP verification and X509_REQ parsing", "the harness decoder/encoder"],
		subs: vec![
			prop_sub("generated", 24_000, 300_000, || prop_oneof![1 => csr_case(false), 2 => crate::props::c07::roundtrip_case()].boxed(), check_generated),
			prop_sub("foreign", 24_000, 300_000, foreign_csr, check_foreign),
			prop_sub("mutants", 6_000, 100_000, mutant_case, check_mutants),
		],
	}
}
