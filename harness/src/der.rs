//! Strict DER reader written from X.690, independent of yasna / x509-parser / asn1-rs.
//!
//! Two kinds of complaint are distinguished:
//!  * hard errors (`Err(String)`): the bytes are not BER-decodable the way the schema wants
//!    (truncation, wrong tag, indefinite length ...). Every property fails on those.
//!  * lints (`Lints`): the bytes decode but are not *canonical* DER (non-minimal length or
//!    integer, BOOLEAN TRUE != 0xFF, encoded DEFAULT, trailing zero bits in a named bit list,
//!    unsorted SET OF, alphabet violations, wrong time form, trailing bytes). C04 asserts the
//!    lint list is empty; the content properties ignore it so that they keep their own verdict.

use std::cell::RefCell;

pub const CLASS_UNIVERSAL: u8 = 0;
pub const CLASS_CONTEXT: u8 = 2;

pub const T_BOOLEAN: u32 = 1;
pub const T_INTEGER: u32 = 2;
pub const T_BIT_STRING: u32 = 3;
pub const T_OCTET_STRING: u32 = 4;
pub const T_NULL: u32 = 5;
pub const T_OID: u32 = 6;
pub const T_ENUMERATED: u32 = 10;
pub const T_UTF8: u32 = 12;
pub const T_SEQUENCE: u32 = 16;
pub const T_SET: u32 = 17;
pub const T_PRINTABLE: u32 = 19;
pub const T_TELETEX: u32 = 20;
pub const T_IA5: u32 = 22;
pub const T_UTCTIME: u32 = 23;
pub const T_GENTIME: u32 = 24;
pub const T_UNIVERSAL_STR: u32 = 28;
pub const T_BMP: u32 = 30;

#[derive(Default, Debug)]
pub struct Lints(pub RefCell<Vec<String>>);

impl Lints {
	pub fn new() -> Self {
		Lints(RefCell::new(Vec::new()))
	}
	pub fn add(&self, s: impl Into<String>) {
		self.0.borrow_mut().push(s.into());
	}
	pub fn take(&self) -> Vec<String> {
		std::mem::take(&mut *self.0.borrow_mut())
	}
	pub fn is_empty(&self) -> bool {
		self.0.borrow().is_empty()
	}
}

#[derive(Clone, Copy, Debug)]
pub struct Tlv<'a> {
	pub class: u8,
	pub constructed: bool,
	pub num: u32,
	/// header + content
	pub raw: &'a [u8],
	pub content: &'a [u8],
}

impl<'a> Tlv<'a> {
	pub fn is_universal(&self, num: u32) -> bool {
		self.class == CLASS_UNIVERSAL && self.num == num
	}
	pub fn is_context(&self, num: u32) -> bool {
		self.class == CLASS_CONTEXT && self.num == num
	}
	pub fn describe(&self) -> String {
		format!(
			"class={} constructed={} tag={} len={}",
			self.class,
			self.constructed,
			self.num,
			self.content.len()
		)
	}
}

/// Reads one TLV from the front of `input`. Length/tag minimality problems are lints.
pub fn read_tlv<'a>(input: &'a [u8], lints: &Lints) -> Result<(Tlv<'a>, &'a [u8]), String> {
	if input.is_empty() {
		return Err("unexpected end of data (no identifier octet)".into());
	}
	let b0 = input[0];
	let class = b0 >> 6;
	let constructed = b0 & 0x20 != 0;
	let mut pos = 1usize;
	let mut num = (b0 & 0x1f) as u32;
	if num == 0x1f {
		// high tag number form
		num = 0;
		let mut first = true;
		loop {
			let b = *input.get(pos).ok_or("truncated high tag number")?;
			pos += 1;
			if first && b == 0x80 {
				lints.add("high-tag-number form with leading 0x80");
			}
			first = false;
			if num > (u32::MAX >> 7) {
				return Err("tag number too large".into());
			}
			num = (num << 7) | (b & 0x7f) as u32;
			if b & 0x80 == 0 {
				break;
			}
		}
		if num < 0x1f {
			lints.add("high-tag-number form used for tag < 31");
		}
	}
	let l0 = *input.get(pos).ok_or("truncated length")?;
	pos += 1;
	let len: usize;
	if l0 < 0x80 {
		len = l0 as usize;
	} else if l0 == 0x80 {
		return Err("indefinite length".into());
	} else {
		let n = (l0 & 0x7f) as usize;
		if n > 8 {
			return Err("length of length > 8".into());
		}
		let bytes = input.get(pos..pos + n).ok_or("truncated long length")?;
		pos += n;
		let mut v: u64 = 0;
		for &b in bytes {
			v = (v << 8) | b as u64;
		}
		if bytes[0] == 0 {
			lints.add("long-form length with leading zero octet");
		}
		if v < 0x80 {
			lints.add("long-form length used for length < 128");
		}
		if v > usize::MAX as u64 / 2 {
			return Err("length overflow".into());
		}
		len = v as usize;
	}
	let end = pos.checked_add(len).ok_or("length overflow")?;
	let content = input
		.get(pos..end)
		.ok_or_else(|| format!("content truncated: want {} have {}", len, input.len() - pos))?;
	Ok((
		Tlv {
			class,
			constructed,
			num,
			raw: &input[..end],
			content,
		},
		&input[end..],
	))
}

/// Reads exactly one TLV spanning the whole input; trailing bytes are a lint.
pub fn read_single<'a>(input: &'a [u8], lints: &Lints, what: &str) -> Result<Tlv<'a>, String> {
	let (tlv, rest) = read_tlv(input, lints).map_err(|e| format!("{what}: {e}"))?;
	if !rest.is_empty() {
		lints.add(format!("{what}: {} trailing byte(s) after the element", rest.len()));
	}
	Ok(tlv)
}

/// All children of a constructed element.
pub fn children<'a>(content: &'a [u8], lints: &Lints) -> Result<Vec<Tlv<'a>>, String> {
	let mut out = Vec::new();
	let mut rest = content;
	while !rest.is_empty() {
		let (t, r) = read_tlv(rest, lints)?;
		out.push(t);
		rest = r;
	}
	Ok(out)
}

pub fn expect_seq<'a>(t: &Tlv<'a>, lints: &Lints, what: &str) -> Result<Vec<Tlv<'a>>, String> {
	if !(t.is_universal(T_SEQUENCE) && t.constructed) {
		return Err(format!("{what}: expected SEQUENCE, got {}", t.describe()));
	}
	children(t.content, lints).map_err(|e| format!("{what}: {e}"))
}

pub fn expect_set<'a>(t: &Tlv<'a>, lints: &Lints, what: &str) -> Result<Vec<Tlv<'a>>, String> {
	if !(t.is_universal(T_SET) && t.constructed) {
		return Err(format!("{what}: expected SET, got {}", t.describe()));
	}
	children(t.content, lints).map_err(|e| format!("{what}: {e}"))
}

/// DER SET OF ordering: ascending by encoding, shorter padded with trailing 0 — for DER
/// encodings that is plain lexicographic comparison of the complete encodings.
pub fn check_set_of_sorted(items: &[Tlv<'_>], lints: &Lints, what: &str) {
	for w in items.windows(2) {
		if cmp_der_setof(w[0].raw, w[1].raw) == std::cmp::Ordering::Greater {
			lints.add(format!("{what}: SET OF elements not sorted by encoding"));
			return;
		}
	}
}

pub fn cmp_der_setof(a: &[u8], b: &[u8]) -> std::cmp::Ordering {
	// X.690 11.6: compared as octet strings with the shorter padded at the end with 0 octets.
	let n = a.len().max(b.len());
	for i in 0..n {
		let x = a.get(i).copied().unwrap_or(0);
		let y = b.get(i).copied().unwrap_or(0);
		if x != y {
			return x.cmp(&y);
		}
	}
	std::cmp::Ordering::Equal
}

fn primitive(t: &Tlv<'_>, what: &str) -> Result<(), String> {
	if t.constructed {
		return Err(format!("{what}: primitive type with constructed encoding"));
	}
	Ok(())
}

/// INTEGER content octets (two's complement, as encoded). Non-minimal is a lint.
pub fn integer_bytes<'a>(t: &Tlv<'a>, lints: &Lints, what: &str) -> Result<&'a [u8], String> {
	if !t.is_universal(T_INTEGER) {
		return Err(format!("{what}: expected INTEGER, got {}", t.describe()));
	}
	integer_content(t, lints, what)
}

pub fn integer_content<'a>(t: &Tlv<'a>, lints: &Lints, what: &str) -> Result<&'a [u8], String> {
	primitive(t, what)?;
	let c = t.content;
	if c.is_empty() {
		return Err(format!("{what}: INTEGER with empty content"));
	}
	if c.len() > 1 && ((c[0] == 0 && c[1] & 0x80 == 0) || (c[0] == 0xff && c[1] & 0x80 != 0)) {
		lints.add(format!("{what}: non-minimal INTEGER encoding"));
	}
	Ok(c)
}

/// Non-negative small integer.
pub fn small_uint(t: &Tlv<'_>, lints: &Lints, what: &str) -> Result<u64, String> {
	let c = integer_bytes(t, lints, what)?;
	uint_from_content(c, what)
}

pub fn uint_from_content(c: &[u8], what: &str) -> Result<u64, String> {
	if c[0] & 0x80 != 0 {
		return Err(format!("{what}: negative INTEGER"));
	}
	let mut v: u64 = 0;
	for &b in c {
		if v >> 56 != 0 {
			return Err(format!("{what}: INTEGER too large"));
		}
		v = (v << 8) | b as u64;
	}
	Ok(v)
}

/// Magnitude of a non-negative INTEGER without leading zero octets (empty = zero).
/// `None` if negative.
pub fn uint_magnitude(content: &[u8]) -> Option<Vec<u8>> {
	if content.is_empty() || content[0] & 0x80 != 0 {
		return None;
	}
	let mut i = 0;
	while i < content.len() && content[i] == 0 {
		i += 1;
	}
	Some(content[i..].to_vec())
}

pub fn boolean(t: &Tlv<'_>, lints: &Lints, what: &str) -> Result<bool, String> {
	if !t.is_universal(T_BOOLEAN) {
		return Err(format!("{what}: expected BOOLEAN, got {}", t.describe()));
	}
	boolean_content(t, lints, what)
}

pub fn boolean_content(t: &Tlv<'_>, lints: &Lints, what: &str) -> Result<bool, String> {
	primitive(t, what)?;
	if t.content.len() != 1 {
		return Err(format!("{what}: BOOLEAN content length {}", t.content.len()));
	}
	match t.content[0] {
		0 => Ok(false),
		0xff => Ok(true),
		x => {
			lints.add(format!("{what}: BOOLEAN TRUE encoded as 0x{x:02x}"));
			Ok(true)
		},
	}
}

pub fn oid(t: &Tlv<'_>, lints: &Lints, what: &str) -> Result<Vec<u64>, String> {
	if !t.is_universal(T_OID) {
		return Err(format!("{what}: expected OBJECT IDENTIFIER, got {}", t.describe()));
	}
	primitive(t, what)?;
	oid_from_content(t.content, lints, what)
}

pub fn oid_from_content(c: &[u8], lints: &Lints, what: &str) -> Result<Vec<u64>, String> {
	if c.is_empty() {
		return Err(format!("{what}: empty OID"));
	}
	let mut subs: Vec<u128> = Vec::new();
	let mut cur: u128 = 0;
	let mut start = true;
	for (i, &b) in c.iter().enumerate() {
		if start && b == 0x80 {
			lints.add(format!("{what}: OID sub-identifier with leading 0x80"));
		}
		start = false;
		// arcs are unbounded; this reader reports them as u64 and saturates beyond (comparisons that
		// matter are made on the raw bytes)
		cur = if cur >> 100 != 0 { u128::MAX >> 8 } else { (cur << 7) | (b & 0x7f) as u128 };
		if b & 0x80 == 0 {
			subs.push(cur);
			cur = 0;
			start = true;
		} else if i == c.len() - 1 {
			return Err(format!("{what}: OID truncated"));
		}
	}
	let first = subs[0];
	let (a, b) = if first < 40 {
		(0u128, first)
	} else if first < 80 {
		(1, first - 40)
	} else {
		(2, first - 80)
	};
	let mut out = Vec::with_capacity(subs.len() + 1);
	for v in [a, b].into_iter().chain(subs[1..].iter().copied()) {
		out.push(v.min(u64::MAX as u128) as u64);
	}
	Ok(out)
}

/// BIT STRING: returns (unused_bits, data octets).
pub fn bit_string<'a>(t: &Tlv<'a>, lints: &Lints, what: &str) -> Result<(u8, &'a [u8]), String> {
	if !t.is_universal(T_BIT_STRING) {
		return Err(format!("{what}: expected BIT STRING, got {}", t.describe()));
	}
	primitive(t, what)?;
	let c = t.content;
	if c.is_empty() {
		return Err(format!("{what}: BIT STRING with no unused-bits octet"));
	}
	let unused = c[0];
	if unused > 7 {
		return Err(format!("{what}: BIT STRING unused bits {unused}"));
	}
	let data = &c[1..];
	if data.is_empty() && unused != 0 {
		// X.690 8.6.2.3: an empty bit string has unused-bits octet 0; nothing to count bits in
		return Err(format!("{what}: empty BIT STRING with non-zero unused bits"));
	}
	if let Some(&last) = data.last() {
		if unused > 0 && last & ((1u8 << unused) - 1) != 0 {
			lints.add(format!("{what}: BIT STRING padding bits not zero"));
		}
	}
	Ok((unused, data))
}

/// BIT STRING that must be a whole number of octets (keys, signatures).
pub fn bit_string_octets<'a>(t: &Tlv<'a>, lints: &Lints, what: &str) -> Result<&'a [u8], String> {
	let (unused, data) = bit_string(t, lints, what)?;
	if unused != 0 {
		return Err(format!("{what}: BIT STRING is not a whole number of octets"));
	}
	Ok(data)
}

/// Named-bit-list BIT STRING (KeyUsage). Returns the set of bit indices that are 1.
pub fn named_bits(t: &Tlv<'_>, lints: &Lints, what: &str) -> Result<Vec<u32>, String> {
	let (unused, data) = bit_string(t, lints, what)?;
	let nbits = data.len() * 8 - unused as usize;
	let mut bits = Vec::new();
	for i in 0..nbits {
		if data[i / 8] & (0x80 >> (i % 8)) != 0 {
			bits.push(i as u32);
		}
	}
	// X.690 11.2.2: trailing 0 bits removed before encoding.
	match bits.last() {
		Some(&hi) => {
			if nbits != hi as usize + 1 {
				lints.add(format!(
					"{what}: named bit list has trailing zero bits (encoded {nbits} bits, highest set bit {hi})"
				));
			}
		},
		None => {
			if !data.is_empty() {
				lints.add(format!("{what}: empty named bit list not encoded as empty BIT STRING"));
			}
		},
	}
	Ok(bits)
}

pub fn octet_string<'a>(t: &Tlv<'a>, what: &str) -> Result<&'a [u8], String> {
	if !t.is_universal(T_OCTET_STRING) {
		return Err(format!("{what}: expected OCTET STRING, got {}", t.describe()));
	}
	primitive(t, what)?;
	Ok(t.content)
}

pub fn null(t: &Tlv<'_>, what: &str) -> Result<(), String> {
	if !t.is_universal(T_NULL) {
		return Err(format!("{what}: expected NULL, got {}", t.describe()));
	}
	primitive(t, what)?;
	if !t.content.is_empty() {
		return Err(format!("{what}: NULL with content"));
	}
	Ok(())
}

pub fn is_printable_char(b: u8) -> bool {
	matches!(b, b'A'..=b'Z' | b'a'..=b'z' | b'0'..=b'9' | b' ' | b'\'' | b'(' | b')' | b'+' | b',' | b'-' | b'.' | b'/' | b':' | b'=' | b'?')
}

/// Checks restricted-string content against its alphabet / transfer encoding (lint only)
/// and decodes it to text where that is well defined.
pub fn string_text(tag: u32, content: &[u8], lints: &Lints, what: &str) -> Option<String> {
	match tag {
		T_UTF8 => match std::str::from_utf8(content) {
			Ok(s) => Some(s.to_string()),
			Err(_) => {
				lints.add(format!("{what}: UTF8String is not valid UTF-8"));
				None
			},
		},
		T_PRINTABLE => {
			if !content.iter().all(|&b| is_printable_char(b)) {
				lints.add(format!("{what}: PrintableString outside its alphabet"));
			}
			Some(content.iter().map(|&b| b as char).collect())
		},
		T_IA5 => {
			if !content.iter().all(|&b| b < 0x80) {
				lints.add(format!("{what}: IA5String outside its alphabet"));
			}
			Some(content.iter().map(|&b| b as char).collect())
		},
		T_TELETEX => {
			// T.61 proper has shift sequences and an 8-bit repertoire; what rcgen's TeletexString admits,
			// and therefore all it may ever emit, is the range 0x20..=0x7f
			if !content.iter().all(|&b| (0x20..=0x7f).contains(&b)) {
				lints.add(format!("{what}: TeletexString outside the alphabet rcgen admits (0x20..=0x7f)"));
			}
			Some(content.iter().map(|&b| b as char).collect())
		},
		T_BMP => {
			if content.len() % 2 != 0 {
				lints.add(format!("{what}: BMPString of odd length"));
				return None;
			}
			let mut s = String::new();
			for ch in content.chunks_exact(2) {
				let u = u16::from_be_bytes([ch[0], ch[1]]);
				match char::from_u32(u as u32) {
					Some(c) => s.push(c),
					None => {
						lints.add(format!("{what}: BMPString contains a surrogate code unit"));
						return None;
					},
				}
			}
			Some(s)
		},
		T_UNIVERSAL_STR => {
			if content.len() % 4 != 0 {
				lints.add(format!("{what}: UniversalString length not a multiple of 4"));
				return None;
			}
			let mut s = String::new();
			for ch in content.chunks_exact(4) {
				let u = u32::from_be_bytes([ch[0], ch[1], ch[2], ch[3]]);
				match char::from_u32(u) {
					Some(c) => s.push(c),
					None => {
						lints.add(format!("{what}: UniversalString contains a non-scalar value"));
						return None;
					},
				}
			}
			Some(s)
		},
		_ => None,
	}
}

#[derive(Clone, Copy, Debug, PartialEq, Eq)]
pub enum TimeForm {
	Utc,
	Generalized,
}

#[derive(Clone, Debug, PartialEq, Eq)]
pub struct TimeVal {
	pub form: TimeForm,
	/// seconds since 1970-01-01T00:00:00Z
	pub unix: i64,
	pub text: String,
}

/// Days from civil (proleptic Gregorian), Howard Hinnant's algorithm.
pub fn days_from_civil(y: i64, m: i64, d: i64) -> i64 {
	let y = if m <= 2 { y - 1 } else { y };
	let era = if y >= 0 { y } else { y - 399 } / 400;
	let yoe = y - era * 400;
	let mp = (m + 9) % 12;
	let doy = (153 * mp + 2) / 5 + d - 1;
	let doe = yoe * 365 + yoe / 4 - yoe / 100 + doy;
	era * 146097 + doe - 719468
}

pub fn civil_from_days(z: i64) -> (i64, i64, i64) {
	let z = z + 719468;
	let era = if z >= 0 { z } else { z - 146096 } / 146097;
	let doe = z - era * 146097;
	let yoe = (doe - doe / 1460 + doe / 36524 - doe / 146096) / 365;
	let y = yoe + era * 400;
	let doy = doe - (365 * yoe + yoe / 4 - yoe / 100);
	let mp = (5 * doy + 2) / 153;
	let d = doy - (153 * mp + 2) / 5 + 1;
	let m = if mp < 10 { mp + 3 } else { mp - 9 };
	(if m <= 2 { y + 1 } else { y }, m, d)
}

pub fn unix_year(unix: i64) -> i64 {
	civil_from_days(unix.div_euclid(86400)).0
}

fn is_leap(y: i64) -> bool {
	(y % 4 == 0 && y % 100 != 0) || y % 400 == 0
}

fn days_in_month(y: i64, m: i64) -> i64 {
	match m {
		1 | 3 | 5 | 7 | 8 | 10 | 12 => 31,
		4 | 6 | 9 | 11 => 30,
		2 => {
			if is_leap(y) {
				29
			} else {
				28
			}
		},
		_ => 0,
	}
}

/// Strict RFC 5280 time: UTCTime `YYMMDDHHMMSSZ`, GeneralizedTime `YYYYMMDDHHMMSSZ`.
/// Anything else (missing seconds, fraction, offset) is a hard error because no instant can
/// be assigned without guessing.
pub fn time(t: &Tlv<'_>, what: &str) -> Result<TimeVal, String> {
	if t.class != CLASS_UNIVERSAL || (t.num != T_UTCTIME && t.num != T_GENTIME) {
		return Err(format!("{what}: expected UTCTime or GeneralizedTime, got {}", t.describe()));
	}
	primitive(t, what)?;
	time_from_content(t.num, t.content, what)
}

pub fn time_from_content(tag: u32, c: &[u8], what: &str) -> Result<TimeVal, String> {
	let text = String::from_utf8_lossy(c).to_string();
	let (form, ylen) = if tag == T_UTCTIME {
		(TimeForm::Utc, 2)
	} else {
		(TimeForm::Generalized, 4)
	};
	if c.len() != ylen + 11 {
		return Err(format!("{what}: time '{text}' has wrong length for its form"));
	}
	if c[c.len() - 1] != b'Z' {
		return Err(format!("{what}: time '{text}' does not end in Z"));
	}
	let digits = &c[..c.len() - 1];
	if !digits.iter().all(|b| b.is_ascii_digit()) {
		return Err(format!("{what}: time '{text}' has non-digit characters"));
	}
	let num = |s: &[u8]| s.iter().fold(0i64, |a, &b| a * 10 + (b - b'0') as i64);
	let mut y = num(&digits[..ylen]);
	if form == TimeForm::Utc {
		y += if y >= 50 { 1900 } else { 2000 };
	}
	let r = &digits[ylen..];
	let (mo, d, h, mi, s) = (num(&r[0..2]), num(&r[2..4]), num(&r[4..6]), num(&r[6..8]), num(&r[8..10]));
	if !(1..=12).contains(&mo) || d < 1 || d > days_in_month(y, mo) || h > 23 || mi > 59 || s > 59 {
		return Err(format!("{what}: time '{text}' is not a valid calendar time"));
	}
	let unix = days_from_civil(y, mo, d) * 86400 + h * 3600 + mi * 60 + s;
	Ok(TimeVal { form, unix, text })
}

// ---------------------------------------------------------------------------------------------
// Minimal canonical DER *encoder*, used to build caller-supplied DER (custom extension content,
// CSR attribute values) and expected encodings. Independent of yasna.

pub fn enc_len(n: usize, out: &mut Vec<u8>) {
	if n < 0x80 {
		out.push(n as u8);
	} else {
		let bytes = n.to_be_bytes();
		let skip = bytes.iter().take_while(|&&b| b == 0).count();
		out.push(0x80 | (bytes.len() - skip) as u8);
		out.extend_from_slice(&bytes[skip..]);
	}
}

pub fn enc_tlv(ident: u8, content: &[u8]) -> Vec<u8> {
	let mut out = vec![ident];
	enc_len(content.len(), &mut out);
	out.extend_from_slice(content);
	out
}

pub fn enc_seq(items: &[Vec<u8>]) -> Vec<u8> {
	enc_tlv(0x30, &items.concat())
}

pub fn enc_set_of(items: &[Vec<u8>]) -> Vec<u8> {
	let mut v: Vec<&Vec<u8>> = items.iter().collect();
	v.sort_by(|a, b| cmp_der_setof(a, b));
	let mut c = Vec::new();
	for i in v {
		c.extend_from_slice(i);
	}
	enc_tlv(0x31, &c)
}

pub fn enc_oid(arcs: &[u64]) -> Vec<u8> {
	assert!(arcs.len() >= 2);
	let mut c = Vec::new();
	let first = arcs[0] as u128 * 40 + arcs[1] as u128;
	let mut push = |v: u128, c: &mut Vec<u8>| {
		let mut tmp = vec![(v & 0x7f) as u8];
		let mut v = v >> 7;
		while v > 0 {
			tmp.push(0x80 | (v & 0x7f) as u8);
			v >>= 7;
		}
		tmp.reverse();
		c.extend_from_slice(&tmp);
	};
	push(first, &mut c);
	for &a in &arcs[2..] {
		push(a as u128, &mut c);
	}
	enc_tlv(0x06, &c)
}

pub fn enc_uint(v: u64) -> Vec<u8> {
	let b = v.to_be_bytes();
	let skip = b.iter().take_while(|&&x| x == 0).count().min(7);
	let mut c = b[skip..].to_vec();
	if c[0] & 0x80 != 0 {
		c.insert(0, 0);
	}
	enc_tlv(0x02, &c)
}

pub fn hex(b: &[u8]) -> String {
	let mut s = String::with_capacity(b.len() * 2);
	for x in b {
		s.push_str(&format!("{x:02x}"));
	}
	s
}

pub fn unhex(s: &str) -> Result<Vec<u8>, String> {
	let s: Vec<u8> = s.bytes().filter(|b| !b.is_ascii_whitespace()).collect();
	if s.len() % 2 != 0 {
		return Err("odd hex length".into());
	}
	let v = |c: u8| -> Result<u8, String> {
		match c {
			b'0'..=b'9' => Ok(c - b'0'),
			b'a'..=b'f' => Ok(c - b'a' + 10),
			b'A'..=b'F' => Ok(c - b'A' + 10),
			_ => Err("bad hex digit".into()),
		}
	};
	s.chunks(2).map(|p| Ok(v(p[0])? << 4 | v(p[1])?)).collect()
}

#[cfg(test)]
mod tests {
	use super::*;

	#[test]
	fn lengths() {
		let l = Lints::new();
		assert!(read_tlv(&[0x30, 0x80, 0, 0], &l).is_err());
		assert!(read_tlv(&[0x30, 0x02, 0], &l).is_err());
		let (t, rest) = read_tlv(&[0x04, 0x81, 0x01, 0xaa, 0xbb], &l).unwrap();
		assert_eq!(t.content, &[0xaa]);
		assert_eq!(rest, &[0xbb]);
		assert_eq!(l.take().len(), 1);
		let mut long = vec![0x04, 0x81, 0x80];
		long.extend(std::iter::repeat(0).take(128));
		let (t, _) = read_tlv(&long, &l).unwrap();
		assert_eq!(t.content.len(), 128);
		assert!(l.is_empty());
	}

	#[test]
	fn ints_and_bits() {
		let l = Lints::new();
		let (t, _) = read_tlv(&[0x02, 0x02, 0x00, 0x7f], &l).unwrap();
		integer_bytes(&t, &l, "x").unwrap();
		assert_eq!(l.take().len(), 1);
		let (t, _) = read_tlv(&[0x02, 0x02, 0x00, 0x80], &l).unwrap();
		integer_bytes(&t, &l, "x").unwrap();
		assert!(l.is_empty());
		// KeyUsage digitalSignature minimal: 03 02 07 80
		let (t, _) = read_tlv(&[0x03, 0x02, 0x07, 0x80], &l).unwrap();
		assert_eq!(named_bits(&t, &l, "ku").unwrap(), vec![0]);
		assert!(l.is_empty());
		let (t, _) = read_tlv(&[0x03, 0x03, 0x07, 0x80, 0x00], &l).unwrap();
		assert_eq!(named_bits(&t, &l, "ku").unwrap(), vec![0]);
		assert_eq!(l.take().len(), 1);
		let (t, _) = read_tlv(&[0x03, 0x02, 0x01, 0x81], &l).unwrap();
		bit_string(&t, &l, "b").unwrap();
		assert_eq!(l.take().len(), 1);
		let (t, _) = read_tlv(&[0x01, 0x01, 0x01], &l).unwrap();
		assert!(boolean(&t, &l, "b").unwrap());
		assert_eq!(l.take().len(), 1);
	}

	#[test]
	fn oids_and_time() {
		let l = Lints::new();
		let e = enc_oid(&[1, 2, 840, 113549, 1, 1, 11]);
		assert_eq!(hex(&e), "06092a864886f70d01010b");
		let (t, _) = read_tlv(&e, &l).unwrap();
		assert_eq!(oid(&t, &l, "o").unwrap(), vec![1, 2, 840, 113549, 1, 1, 11]);
		let e = enc_oid(&[2, 999, 3]);
		let (t, _) = read_tlv(&e, &l).unwrap();
		assert_eq!(oid(&t, &l, "o").unwrap(), vec![2, 999, 3]);
		assert!(l.is_empty());
		let tv = time_from_content(T_UTCTIME, b"700101000000Z", "t").unwrap();
		assert_eq!(tv.unix, 0);
		let tv = time_from_content(T_UTCTIME, b"491231235959Z", "t").unwrap();
		assert_eq!(unix_year(tv.unix), 2049);
		let tv = time_from_content(T_GENTIME, b"20500101000000Z", "t").unwrap();
		assert_eq!(tv.unix, 2524608000);
		assert!(time_from_content(T_GENTIME, b"20500101000000.5Z", "t").is_err());
		assert!(time_from_content(T_UTCTIME, b"7001010000Z", "t").is_err());
		assert!(time_from_content(T_UTCTIME, b"700101000000+0100", "t").is_err());
		assert_eq!(civil_from_days(days_from_civil(0, 1, 1)), (0, 1, 1));
		assert_eq!(civil_from_days(days_from_civil(9999, 12, 31)), (9999, 12, 31));
	}

	#[test]
	fn set_order() {
		assert_eq!(cmp_der_setof(&[0x30, 1, 1], &[0x30, 1, 2]), std::cmp::Ordering::Less);
		let s = enc_set_of(&[vec![0x04, 1, 9], vec![0x04, 1, 3]]);
		assert_eq!(s, vec![0x31, 6, 0x04, 1, 3, 0x04, 1, 9]);
	}
}
