//! `rv` — the verification harness binary.
//!
//!   rv run <property> [--tier quick|thorough] [--seed N] [--sub NAME] [--scale F] [--frag PATH]
//!   rv replay <property> <replay.json>
//!   rv list


use rv::runner::{self, RunCfg, Tier};
use rv::props;

fn usage() -> ! {
	eprintln!("usage: rv run <id> [--tier quick|thorough] [--seed N] [--sub NAME] [--scale F] [--frag PATH] | rv replay <id> <file> | rv list");
	std::process::exit(2)
}

fn main() {
	// a panic that escapes the per-case catch_unwind is a crash of the harness: inconclusive
	if std::panic::catch_unwind(real_main).is_err() {
		let last = runner::LAST_PANIC_ANYWHERE.lock().map(|g| g.clone()).unwrap_or_default();
		let n = last.len();
		eprintln!("INCONCLUSIVE harness crashed; most recent panics: {:?}", &last[n.saturating_sub(4)..]);
		std::process::exit(2);
	}
}

fn real_main() {
	let args: Vec<String> = std::env::args().skip(1).collect();
	if args.is_empty() {
		usage();
	}
	runner::install_quiet_panic_hook();
	match args[0].as_str() {
		"corpus" => {
			let dir = args.get(1).cloned().unwrap_or_else(|| usage());
			let seed = args.get(2).and_then(|s| s.parse().ok()).unwrap_or(1);
			match rv::fuzzing::write_corpus(&dir, seed) {
				Ok(n) => eprintln!("wrote {n} corpus files under {dir}"),
				Err(e) => {
					eprintln!("corpus: {e}");
					std::process::exit(2);
				},
			}
		},
		"fuzz-replay" => {
			let target = args.get(1).cloned().unwrap_or_else(|| usage());
			let path = args.get(2).cloned().unwrap_or_else(|| usage());
			let prop = args.get(3).cloned().unwrap_or_else(|| "C10".into());
			let data = std::fs::read(&path).unwrap_or_else(|e| {
				eprintln!("cannot read {path}: {e}");
				std::process::exit(2)
			});
			let r = match target.as_str() {
				"c10_parse" => rv::fuzzing::c10_parse(&data),
				"c06_csr" => rv::fuzzing::c06_csr(&data),
				"c03_import" => rv::fuzzing::c03_import(&data),
				_ => usage(),
			};
			match r {
				Ok(()) => println!("replay passed: the property holds on this input"),
				Err(e) => {
					eprintln!("--- replay failed: {e}");
					println!("VIOLATION property={prop} replay={path}");
					std::process::exit(1);
				},
			}
		},
		"c15-child" => props::c15::child_main(),
		#[cfg(feature = "crypto")]
		"c19-child" => props::c19::child_main(),
		"c16-child" => props::c16::child_main(),
		"list" => {
			for p in props::ALL {
				println!("{p}");
			}
		},
		"run" => {
			let id = args.get(1).cloned().unwrap_or_else(|| usage());
			let mut tier = match std::env::var("VERIF_TIER").as_deref() {
				Ok("thorough") => Tier::Thorough,
				_ => Tier::Quick,
			};
			let mut seed: u64 = std::env::var("VERIF_SEED").ok().and_then(|s| s.parse().ok()).unwrap_or(1);
			let mut sub = None;
			let mut scale = 1.0;
			let mut frag = None;
			let mut i = 2;
			while i < args.len() {
				match args[i].as_str() {
					"--tier" => {
						tier = if args[i + 1] == "thorough" { Tier::Thorough } else { Tier::Quick };
						i += 1;
					},
					"--seed" => {
						seed = args[i + 1].parse().unwrap_or(1);
						i += 1;
					},
					"--sub" => {
						sub = Some(args[i + 1].clone());
						i += 1;
					},
					"--scale" => {
						scale = args[i + 1].parse().unwrap_or(1.0);
						i += 1;
					},
					"--frag" => {
						frag = Some(args[i + 1].clone());
						i += 1;
					},
					_ => usage(),
				}
				i += 1;
			}
			let Some(def) = props::lookup(&id) else {
				eprintln!("unknown property {id} in variant {}", runner::variant_name());
				std::process::exit(2);
			};
			let shards = std::thread::available_parallelism().map(|n| n.get()).unwrap_or(8).min(16);
			let cfg = RunCfg { tier, seed, shards, scale };
			// watchdog: a hang is "inconclusive", never a violation
			let limit = if tier == Tier::Quick { 1500 } else { 6 * 3600 };
			std::thread::spawn(move || {
				std::thread::sleep(std::time::Duration::from_secs(limit));
				eprintln!("INCONCLUSIVE watchdog: no verdict after {limit} s");
				std::process::exit(2);
			});
			let (outcome, fragment) = runner::run_property(&def, &cfg, sub.as_deref());
			if let Some(p) = frag {
				if let Some(parent) = std::path::Path::new(&p).parent() {
					let _ = std::fs::create_dir_all(parent);
				}
				std::fs::write(&p, serde_json::to_string_pretty(&fragment).unwrap()).expect("write fragment");
			}
			if outcome.violations > 0 {
				std::process::exit(1);
			}
			if outcome.inconclusive {
				std::process::exit(2);
			}
		},
		"replay" => {
			let id = args.get(1).cloned().unwrap_or_else(|| usage());
			let path = args.get(2).cloned().unwrap_or_else(|| usage());
			let Some(def) = props::lookup(&id) else {
				eprintln!("unknown property {id}");
				std::process::exit(2);
			};
			match runner::replay_property(&def, &path) {
				Ok(()) => {
					println!("replay passed: the property holds on this case");
				},
				Err(e) => {
					eprintln!("--- replay failed: {e}");
					println!("VIOLATION property={id} replay={path}");
					std::process::exit(1);
				},
			}
		},
		_ => usage(),
	}
}
