//! Known-finding classes: predicates that recognise one recorded defect from the failing case.
//! The list of recorded findings is /verif/known_findings.json (read-only at run time); a class
//! is honoured only while that file lists it.

use std::sync::OnceLock;

use serde_json::Value;

pub fn known_findings() -> &'static Value {
	static K: OnceLock<Value> = OnceLock::new();
	K.get_or_init(|| {
		let p = format!("{}/known_findings.json", crate::keys::verif_root());
		std::fs::read_to_string(&p)
			.ok()
			.and_then(|s| serde_json::from_str(&s).ok())
			.unwrap_or(Value::Null)
	})
}

/// Is a `known` entry with this class listed?
pub fn listed(class: &str) -> Option<&'static Value> {
	known_findings()["known"].as_array()?.iter().find(|e| e["class"].as_str() == Some(class))
}

pub fn known_line(class: &str) -> Option<String> {
	let e = listed(class)?;
	Some(format!(
		"KNOWN-FINDING: property={} {}",
		e["property"].as_str().unwrap_or("?"),
		e["what"].as_str().unwrap_or(class)
	))
}

/// C07: a generated request that rcgen's own parser refuses. Only the recorded class
/// (P-521/SHA-512 requests, unsupported by x509-parser's verifier) is tolerated.
pub fn c07_parse_back_refused(case: &crate::props::common::CsrCase, err: &rcgen::Error) -> Option<String> {
	if case.key.alg == crate::spec::KeyAlg::P521 && *err == rcgen::Error::RingUnspecified && listed("K-P521-CSR-PARSE").is_some() {
		return Some("known:K-P521-CSR-PARSE".into());
	}
	None
}

/// C10: the recorded panic families. `Some(class)` only if the class is listed in
/// known_findings.json and the panic message is the recorded one.
pub fn c10_known_class(class: crate::props::c10::TriggerClass, panic_msg: &str) -> Option<&'static str> {
	use crate::props::c10::TriggerClass::*;
	let (name, needles): (&'static str, &[&str]) = match class {
		Ia5 => ("K-IA5", &["IA5 string must be ASCII"]),
		Oid => ("K-OID", &["Invalid OID"]),
		Year => ("K-YEAR", &["Can't express a year", "local datetime out of valid range"]),
	};
	if listed(name).is_some() && needles.iter().any(|n| panic_msg.contains(n)) {
		Some(name)
	} else {
		None
	}
}

/// C11: a key that rcgen saved is refused by one of its own loaders. Only the recorded class is
/// tolerated (none is recorded unless known_findings.json lists `K-LEGACY-SAVE`): a key loaded from
/// a SEC1 / PKCS#1 document is saved in that same encoding, which the PKCS#8-only entry points refuse.
#[cfg(feature = "crypto")]
pub fn c11_saved_key_refused(saved: &[u8], entry: crate::props::c11::Entry, _err: &rcgen::Error) -> Option<String> {
	use crate::props::c11::Entry::*;
	let is_pkcs8 = matches!(pki_types::PrivateKeyDer::try_from(saved.to_vec()), Ok(pki_types::PrivateKeyDer::Pkcs8(_)));
	if !is_pkcs8 && matches!(entry, TryFromPkcs8Der | Pkcs8DerAlgo | Pkcs8PemAlgo) && listed("K-LEGACY-SAVE").is_some() {
		return Some("known:K-LEGACY-SAVE".into());
	}
	None
}
