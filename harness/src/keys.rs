//! Committed throw-away fixture keys, their OpenSSL view (independent SPKI, verification),
//! and the harness's `RemoteKeyPair` (signs with OpenSSL, can be told to fail on given calls).

use std::collections::BTreeMap;
use std::sync::atomic::{AtomicU64, Ordering};
use std::sync::{Arc, OnceLock};

use openssl::hash::MessageDigest;
use openssl::pkey::{PKey, Private, Public};
use openssl::sign::{Signer, Verifier};

use crate::der::Lints;
use crate::spec::{KeyAlg, KeySpec, RsaHash};
use crate::x509;

pub fn verif_root() -> String {
	std::env::var("VERIF_ROOT").unwrap_or_else(|_| "/verif".to_string())
}

pub struct Fixture {
	pub alg: KeyAlg,
	pub idx: usize,
	pub pk8: Vec<u8>,
	/// SEC1 (EC) or PKCS#1 (RSA) encoding when the fixture has one
	pub legacy: Option<Vec<u8>>,
	pub pkey: PKey<Private>,
	/// SubjectPublicKeyInfo as encoded by OpenSSL
	pub spki: Vec<u8>,
	/// the subjectPublicKey bits (what rcgen calls the raw public key)
	pub raw_public: Vec<u8>,
}

pub struct Fixtures {
	pub pools: BTreeMap<KeyAlg, Vec<Fixture>>,
}

fn alg_prefix(alg: KeyAlg) -> &'static str {
	match alg {
		KeyAlg::P256 => "p256",
		KeyAlg::P384 => "p384",
		KeyAlg::P521 => "p521",
		KeyAlg::Ed25519 => "ed25519",
		KeyAlg::Rsa2048 => "rsa2048",
		KeyAlg::Rsa3072 => "rsa3072",
		KeyAlg::Rsa4096 => "rsa4096",
		KeyAlg::Rsa6144 => "rsa6144",
	}
}

pub const ALL_KEY_ALGS: [KeyAlg; 8] = [
	KeyAlg::P256,
	KeyAlg::P384,
	KeyAlg::P521,
	KeyAlg::Ed25519,
	KeyAlg::Rsa2048,
	KeyAlg::Rsa3072,
	KeyAlg::Rsa4096,
	KeyAlg::Rsa6144,
];

pub fn fixtures() -> &'static Fixtures {
	static F: OnceLock<Fixtures> = OnceLock::new();
	F.get_or_init(|| {
		let dir = format!("{}/fixtures/keys", verif_root());
		let mut pools = BTreeMap::new();
		for alg in ALL_KEY_ALGS {
			let mut v = Vec::new();
			for idx in 0.. {
				let p = format!("{dir}/{}-{idx}.pk8", alg_prefix(alg));
				let Ok(pk8) = std::fs::read(&p) else { break };
				let legacy = std::fs::read(format!("{dir}/{}-{idx}.sec1", alg_prefix(alg)))
					.or_else(|_| std::fs::read(format!("{dir}/{}-{idx}.pkcs1", alg_prefix(alg))))
					.ok();
				let pkey = PKey::private_key_from_der(&pk8).expect("fixture key parses in OpenSSL");
				let spki = pkey.public_key_to_der().expect("spki");
				let l = Lints::new();
				let parsed = x509::parse_spki_der(&spki, &l).expect("fixture spki decodes");
				v.push(Fixture {
					alg,
					idx,
					pk8,
					legacy,
					pkey,
					spki,
					raw_public: parsed.key_bits,
				});
			}
			assert!(!v.is_empty(), "no fixture keys for {alg:?} under {dir}");
			pools.insert(alg, v);
		}
		Fixtures { pools }
	})
}

pub fn fixture(k: &KeySpec) -> &'static Fixture {
	let pool = &fixtures().pools[&k.alg];
	&pool[k.idx as usize % pool.len()]
}

/// Key algorithms the current build of rcgen can hold locally / name as a static.
pub fn available_algs() -> Vec<KeyAlg> {
	let mut v = vec![KeyAlg::P256, KeyAlg::P384, KeyAlg::Ed25519, KeyAlg::Rsa2048, KeyAlg::Rsa3072, KeyAlg::Rsa4096];
	if cfg!(feature = "aws_be") {
		v.push(KeyAlg::P521);
		v.push(KeyAlg::Rsa6144);
	}
	v
}

pub fn rcgen_alg(k: &KeySpec) -> &'static rcgen::SignatureAlgorithm {
	match k.alg {
		KeyAlg::P256 => &rcgen::PKCS_ECDSA_P256_SHA256,
		KeyAlg::P384 => &rcgen::PKCS_ECDSA_P384_SHA384,
		#[cfg(feature = "aws_be")]
		KeyAlg::P521 => &rcgen::PKCS_ECDSA_P521_SHA512,
		#[cfg(not(feature = "aws_be"))]
		KeyAlg::P521 => panic!("P-521 is not available in this build"),
		KeyAlg::Ed25519 => &rcgen::PKCS_ED25519,
		KeyAlg::Rsa2048 | KeyAlg::Rsa3072 | KeyAlg::Rsa4096 | KeyAlg::Rsa6144 => match k.rsa_hash {
			RsaHash::Sha256 => &rcgen::PKCS_RSA_SHA256,
			RsaHash::Sha384 => &rcgen::PKCS_RSA_SHA384,
			RsaHash::Sha512 => &rcgen::PKCS_RSA_SHA512,
		},
	}
}

/// Digest the signature algorithm of this key uses (None for Ed25519).
pub fn digest_of(k: &KeySpec) -> Option<MessageDigest> {
	match k.alg {
		KeyAlg::P256 => Some(MessageDigest::sha256()),
		KeyAlg::P384 => Some(MessageDigest::sha384()),
		KeyAlg::P521 => Some(MessageDigest::sha512()),
		KeyAlg::Ed25519 => None,
		_ => Some(match k.rsa_hash {
			RsaHash::Sha256 => MessageDigest::sha256(),
			RsaHash::Sha384 => MessageDigest::sha384(),
			RsaHash::Sha512 => MessageDigest::sha512(),
		}),
	}
}

/// RFC-registered signature AlgorithmIdentifier (complete DER) for the key's algorithm.
/// Transcribed from RFC 4055 §5 (RSA: NULL parameters), RFC 5758 §3.2 (ECDSA: parameters
/// absent), RFC 8410 §3 (Ed25519: parameters absent).
pub fn rfc_sig_alg_id(k: &KeySpec) -> Vec<u8> {
	let h = |s: &str| crate::der::unhex(s).unwrap();
	match k.alg {
		KeyAlg::P256 => h("300a06082a8648ce3d040302"),
		KeyAlg::P384 => h("300a06082a8648ce3d040303"),
		KeyAlg::P521 => h("300a06082a8648ce3d040304"),
		KeyAlg::Ed25519 => h("300506032b6570"),
		_ => match k.rsa_hash {
			RsaHash::Sha256 => h("300d06092a864886f70d01010b0500"),
			RsaHash::Sha384 => h("300d06092a864886f70d01010c0500"),
			RsaHash::Sha512 => h("300d06092a864886f70d01010d0500"),
		},
	}
}

/// RFC-registered SubjectPublicKeyInfo AlgorithmIdentifier (complete DER): RFC 3279/4055
/// rsaEncryption + NULL, RFC 5480 id-ecPublicKey + namedCurve, RFC 8410 id-Ed25519.
pub fn rfc_spki_alg_id(alg: KeyAlg) -> Vec<u8> {
	let h = |s: &str| crate::der::unhex(s).unwrap();
	match alg {
		KeyAlg::P256 => h("301306072a8648ce3d020106082a8648ce3d030107"),
		KeyAlg::P384 => h("301006072a8648ce3d020106052b81040022"),
		KeyAlg::P521 => h("301006072a8648ce3d020106052b81040023"),
		KeyAlg::Ed25519 => h("300506032b6570"),
		_ => h("300d06092a864886f70d0101010500"),
	}
}

/// Independent signature verification: `sig` over exactly `msg` under the public key in
/// `spki_der`, with the digest implied by the *signer's* algorithm.
pub fn openssl_verify(spki_der: &[u8], digest: Option<MessageDigest>, msg: &[u8], sig: &[u8]) -> Result<bool, String> {
	let pkey: PKey<Public> = PKey::public_key_from_der(spki_der).map_err(|e| format!("OpenSSL cannot load SPKI: {e}"))?;
	let r = match digest {
		Some(d) => {
			let mut v = Verifier::new(d, &pkey).map_err(|e| format!("verifier: {e}"))?;
			v.update(msg).map_err(|e| e.to_string())?;
			v.verify(sig)
		},
		None => {
			let mut v = Verifier::new_without_digest(&pkey).map_err(|e| format!("verifier: {e}"))?;
			v.verify_oneshot(sig, msg)
		},
	};
	// an error from verify (malformed signature encoding) is a negative verdict
	let _ = openssl::error::ErrorStack::get();
	Ok(r.unwrap_or(false))
}

pub fn openssl_sign(pkey: &PKey<Private>, digest: Option<MessageDigest>, msg: &[u8]) -> Result<Vec<u8>, String> {
	match digest {
		Some(d) => {
			let mut s = Signer::new(d, pkey).map_err(|e| e.to_string())?;
			s.update(msg).map_err(|e| e.to_string())?;
			s.sign_to_vec().map_err(|e| e.to_string())
		},
		None => {
			let mut s = Signer::new_without_digest(pkey).map_err(|e| e.to_string())?;
			s.sign_oneshot_to_vec(msg).map_err(|e| e.to_string())
		},
	}
}

/// Which `sign` calls of a remote signer fail: bit i of `mask` set => the i-th call (0-based)
/// returns `Err(RemoteKeyError)`.
#[derive(Debug, Default)]
pub struct FailPlan {
	pub mask: u64,
	pub calls: AtomicU64,
	pub failed: AtomicU64,
}

pub struct RemoteSigner {
	fx: &'static Fixture,
	digest: Option<MessageDigest>,
	alg: &'static rcgen::SignatureAlgorithm,
	pub plan: Arc<FailPlan>,
}

impl rcgen::RemoteKeyPair for RemoteSigner {
	fn public_key(&self) -> &[u8] {
		&self.fx.raw_public
	}
	fn sign(&self, msg: &[u8]) -> Result<Vec<u8>, rcgen::Error> {
		let n = self.plan.calls.fetch_add(1, Ordering::SeqCst);
		if n < 64 && self.plan.mask & (1 << n) != 0 {
			self.plan.failed.fetch_add(1, Ordering::SeqCst);
			// a signer may report its failure through any error value
			return Err(match (self.plan.mask.count_ones() as u64 + n) % 7 {
				0 => rcgen::Error::RemoteKeyError,
				1 => rcgen::Error::RingUnspecified,
				2 => rcgen::Error::RingKeyRejected("token removed".into()),
				3 => rcgen::Error::Time,
				4 => rcgen::Error::CouldNotParseKeyPair,
				5 => rcgen::Error::KeyGenerationUnavailable,
				_ => rcgen::Error::UnsupportedSignatureAlgorithm,
			});
		}
		openssl_sign(&self.fx.pkey, self.digest, msg).map_err(|_| rcgen::Error::RemoteKeyError)
	}
	fn algorithm(&self) -> &'static rcgen::SignatureAlgorithm {
		self.alg
	}
}

pub fn make_remote(k: &KeySpec, plan: Arc<FailPlan>) -> Result<rcgen::KeyPair, String> {
	let r = RemoteSigner {
		fx: fixture(k),
		digest: digest_of(k),
		alg: rcgen_alg(k),
		plan,
	};
	rcgen::KeyPair::from_remote(Box::new(r)).map_err(|e| format!("from_remote: {e}"))
}

/// The same PEM block with two header lines and the blank separator line after BEGIN.
pub fn with_pem_headers(pem: &str) -> String {
	let (first, rest) = pem.split_once('\n').expect("PEM text has lines");
	format!("{first}\nComment: loaded by the harness\nX-Origin: fixture\n\n{rest}")
}

/// A remote key pair whose public key is whatever bytes the caller says (rcgen treats the public
/// key of a remote signer as opaque) and whose signatures are a fixed filler. For checks that look
/// at the encoding and at values derived from the key bytes, not at the signature.
pub struct OpaqueRemote {
	pub public: Vec<u8>,
	pub alg: &'static rcgen::SignatureAlgorithm,
}

impl rcgen::RemoteKeyPair for OpaqueRemote {
	fn public_key(&self) -> &[u8] {
		&self.public
	}
	fn sign(&self, _msg: &[u8]) -> Result<Vec<u8>, rcgen::Error> {
		Ok(vec![0x30, 0x06, 0x02, 0x01, 0x01, 0x02, 0x01, 0x01])
	}
	fn algorithm(&self) -> &'static rcgen::SignatureAlgorithm {
		self.alg
	}
}

pub fn opaque_key(public: Vec<u8>, alg: &'static rcgen::SignatureAlgorithm) -> Result<rcgen::KeyPair, String> {
	rcgen::KeyPair::from_remote(Box::new(OpaqueRemote { public, alg })).map_err(|e| format!("from_remote: {e}"))
}

/// Number of loading routes `make_key` cycles through.
pub const LOADER_ROUTES: usize = 13;

/// The fixture's Ed25519 key in the 85-octet PKCS#8 v2 layout of ring < 0.17 / rcgen < 0.12.
#[cfg(feature = "crypto")]
pub fn ed25519_old_v2(fx: &Fixture) -> Vec<u8> {
	let pos = fx.pk8.windows(4).position(|w| w == [0x04, 0x22, 0x04, 0x20]).expect("Ed25519 fixture holds a seed");
	let seed = &fx.pk8[pos + 4..pos + 36];
	let mut v = vec![0x30, 0x53, 0x02, 0x01, 0x01, 0x30, 0x05, 0x06, 0x03, 0x2b, 0x65, 0x70, 0x04, 0x22, 0x04, 0x20];
	v.extend_from_slice(seed);
	v.extend_from_slice(&[0xa1, 0x23, 0x03, 0x21, 0x00]);
	v.extend_from_slice(&fx.raw_public);
	v
}

/// The fixture's EC key as a PKCS#8 document whose inner ECPrivateKey carries the optional
/// `parameters [0]` field (as some toolkits write it). `None` for other key types.
#[cfg(feature = "crypto")]
pub fn ec_pk8_with_parameters(fx: &Fixture) -> Option<Vec<u8>> {
	use crate::der::{children, enc_seq, enc_tlv, read_single, Lints};
	let curve: &[u64] = match fx.alg {
		KeyAlg::P256 => &[1, 2, 840, 10045, 3, 1, 7],
		KeyAlg::P384 => &[1, 3, 132, 0, 34],
		KeyAlg::P521 => &[1, 3, 132, 0, 35],
		_ => return None,
	};
	let l = Lints::new();
	let outer = read_single(&fx.pk8, &l, "pkcs8").ok()?;
	let parts = children(outer.content, &l).ok()?;
	let inner = read_single(parts.get(2)?.content, &l, "ECPrivateKey").ok()?;
	let ip = children(inner.content, &l).ok()?;
	if ip.len() < 2 || ip.iter().any(|t| t.raw.first() == Some(&0xa0)) {
		return None;
	}
	let mut items: Vec<Vec<u8>> = vec![ip[0].raw.to_vec(), ip[1].raw.to_vec(), enc_tlv(0xa0, &crate::der::enc_oid(curve))];
	items.extend(ip[2..].iter().map(|t| t.raw.to_vec()));
	let new_inner = enc_seq(&items);
	let mut top: Vec<Vec<u8>> = vec![parts[0].raw.to_vec(), parts[1].raw.to_vec(), enc_tlv(0x04, &new_inner)];
	top.extend(parts[3..].iter().map(|t| t.raw.to_vec()));
	Some(enc_seq(&top))
}

/// Builds the rcgen key pair a `KeySpec` describes.
pub fn make_key(k: &KeySpec) -> Result<rcgen::KeyPair, String> {
	if k.remote || !cfg!(feature = "crypto") {
		return make_remote(k, Arc::new(FailPlan::default()));
	}
	#[cfg(feature = "crypto")]
	{
		// The explicit-algorithm loading entry point is chosen by the part of `idx` above the pool
		// size, so that every property sees keys that came in through every loader (they build
		// the signing key from separate per-algorithm tables).
		use pki_types::{PrivateKeyDer, PrivatePkcs1KeyDer, PrivatePkcs8KeyDer, PrivateSec1KeyDer};
		let fx = fixture(k);
		let pool = fixtures().pools[&k.alg].len();
		let alg = rcgen_alg(k);
		let sel = (k.idx as usize / pool) % LOADER_ROUTES;
		// the auto-detecting loaders give RSA keys the SHA-256 algorithm
		let auto_ok = !k.is_rsa() || k.rsa_hash == RsaHash::Sha256;
		let legacy_label = if k.is_rsa() { "RSA PRIVATE KEY" } else { "EC PRIVATE KEY" };
		let pk8 = PrivatePkcs8KeyDer::from(fx.pk8.as_slice());
		let r = match sel {
			0 => rcgen::KeyPair::from_pkcs8_der_and_sign_algo(&pk8, alg),
			1 => rcgen::KeyPair::from_der_and_sign_algo(&PrivateKeyDer::Pkcs8(pk8), alg),
			2 => rcgen::KeyPair::from_pkcs8_pem_and_sign_algo(&crate::pemstrict::encode("PRIVATE KEY", &fx.pk8), alg),
			3 => rcgen::KeyPair::from_pem_and_sign_algo(&crate::pemstrict::encode("PRIVATE KEY", &fx.pk8), alg),
			// PEM text carrying RFC 1421 style headers, which the PEM loaders accept
			5 => rcgen::KeyPair::from_pem_and_sign_algo(&with_pem_headers(&crate::pemstrict::encode("PRIVATE KEY", &fx.pk8)), alg),
			6 if !k.is_rsa() || k.rsa_hash == RsaHash::Sha256 => rcgen::KeyPair::from_pem(&with_pem_headers(&crate::pemstrict::encode("PRIVATE KEY", &fx.pk8))),
			6 => rcgen::KeyPair::from_pkcs8_pem_and_sign_algo(&with_pem_headers(&crate::pemstrict::encode("PRIVATE KEY", &fx.pk8)), alg),
			// the auto-detecting loaders, owned and borrowed input
			7 if auto_ok => rcgen::KeyPair::try_from(fx.pk8.clone()),
			8 if auto_ok => rcgen::KeyPair::try_from(fx.pk8.as_slice()),
			9 if auto_ok && cfg!(feature = "aws_be") && fx.legacy.is_some() => rcgen::KeyPair::try_from(fx.legacy.clone().unwrap()),
			10 if auto_ok && cfg!(feature = "aws_be") && fx.legacy.is_some() => rcgen::KeyPair::from_pem(&crate::pemstrict::encode(legacy_label, fx.legacy.as_ref().unwrap())),
			// the PKCS#8 v2 layout older ring versions wrote for Ed25519 ([1] { BIT STRING public key })
			11 if k.alg == KeyAlg::Ed25519 => rcgen::KeyPair::from_pkcs8_der_and_sign_algo(&PrivatePkcs8KeyDer::from(ed25519_old_v2(fx)), alg),
			// an EC document with the optional curve parameters inside the ECPrivateKey; back ends that do
			// not read it fall back to the plain document
			12 if ec_pk8_with_parameters(fx).is_some() => {
				let doc = ec_pk8_with_parameters(fx).unwrap();
				match rcgen::KeyPair::from_pem(&crate::pemstrict::encode("PRIVATE KEY", &doc)) {
					Ok(k) => Ok(k),
					Err(_) => rcgen::KeyPair::from_pkcs8_der_and_sign_algo(&pk8, alg),
				}
			},
			7..=12 => rcgen::KeyPair::from_pkcs8_der_and_sign_algo(&pk8, alg),
			_ => match (&fx.legacy, cfg!(feature = "aws_be")) {
				// SEC1 / PKCS#1 documents are only documented to load under aws-lc-rs
				(Some(l), true) => {
					let typed = if k.is_rsa() {
						PrivateKeyDer::Pkcs1(PrivatePkcs1KeyDer::from(l.as_slice()))
					} else {
						PrivateKeyDer::Sec1(PrivateSec1KeyDer::from(l.as_slice()))
					};
					rcgen::KeyPair::from_der_and_sign_algo(&typed, alg)
				},
				_ => rcgen::KeyPair::from_pkcs8_der_and_sign_algo(&pk8, alg),
			},
		};
		return r.map_err(|e| format!("fixture key {:?}#{} rejected by rcgen (loader {sel}): {e}", k.alg, k.idx));
	}
	#[allow(unreachable_code)]
	Err("unreachable".into())
}

pub fn sha(kind: u8, data: &[u8]) -> Vec<u8> {
	match kind {
		0 => openssl::sha::sha256(data).to_vec(),
		1 => openssl::sha::sha384(data).to_vec(),
		_ => openssl::sha::sha512(data).to_vec(),
	}
}
