//! Reference model: Spec -> what an independent decoder must find in the artefact.

use std::collections::BTreeSet;

use crate::der;
use crate::spec::*;
use crate::x509::{self, Attr, Cert, Ext, ExtValue, GeneralName, Name};

pub fn strip_zeros(b: &[u8]) -> Vec<u8> {
	let mut i = 0;
	while i < b.len() && b[i] == 0 {
		i += 1;
	}
	b[i..].to_vec()
}

/// Key identifier by the configured derivation (RFC 7093 truncated hashes of the
/// SubjectPublicKeyInfo, or the pre-specified bytes), computed with OpenSSL's SHA-2.
pub fn key_id(kid: &KidSpec, spki_der: &[u8]) -> Vec<u8> {
	match kid {
		KidSpec::Pre(b) => b.0.clone(),
		KidSpec::Sha256 => crate::keys::sha(0, spki_der)[..20].to_vec(),
		KidSpec::Sha384 => crate::keys::sha(1, spki_der)[..20].to_vec(),
		KidSpec::Sha512 => crate::keys::sha(2, spki_der)[..20].to_vec(),
	}
}

pub fn attr_matches(a: &Attr, t: &DnTypeSpec, v: &DnValueSpec) -> Result<(), String> {
	if a.oid != t.oid() {
		return Err(format!("attribute type {:?}, expected {:?}", a.oid, t.oid()));
	}
	if a.tag != v.kind.tag() {
		return Err(format!("attribute {:?} has string tag {}, expected {} ({:?})", a.oid, a.tag, v.kind.tag(), v.kind));
	}
	let want = v.kind.encode(&v.text);
	if a.bytes != want {
		return Err(format!(
			"attribute {:?} value bytes {} expected {} (text {:?})",
			a.oid,
			der::hex(&a.bytes),
			der::hex(&want),
			v.text
		));
	}
	Ok(())
}

pub fn name_matches(n: &Name, want: &[(DnTypeSpec, DnValueSpec)], what: &str) -> Result<(), String> {
	let flat = n.flat().ok_or_else(|| format!("{what}: multi-valued RDN in output"))?;
	if flat.len() != want.len() {
		return Err(format!(
			"{what}: {} attributes encoded, {} expected ({:?} vs {:?})",
			flat.len(),
			want.len(),
			flat.iter().map(|a| a.oid.clone()).collect::<Vec<_>>(),
			want.iter().map(|w| w.0.oid()).collect::<Vec<_>>()
		));
	}
	for (i, (a, (t, v))) in flat.iter().zip(want.iter()).enumerate() {
		attr_matches(a, t, v).map_err(|e| format!("{what}[{i}]: {e}"))?;
	}
	Ok(())
}

pub fn san_matches(g: &GeneralName, s: &SanSpec) -> bool {
	match (g, s) {
		(GeneralName::Rfc822(b), SanSpec::Rfc822(t)) => b == t.as_bytes(),
		(GeneralName::Dns(b), SanSpec::Dns(t)) => b == t.as_bytes(),
		(GeneralName::Uri(b), SanSpec::Uri(t)) => b == t.as_bytes(),
		(GeneralName::Ip(b), SanSpec::Ip(x)) => *b == x.0,
		(GeneralName::OtherName { oid, value_tag, value_text, .. }, SanSpec::OtherName(o, t)) => {
			oid == o && *value_tag == der::T_UTF8 && value_text.as_deref() == Some(t.as_str())
		},
		_ => false,
	}
}

/// Mask of a CIDR prefix computed from first principles: the first min(prefix, width) bits set.
pub fn prefix_mask(width_bytes: usize, prefix: u8) -> Vec<u8> {
	let mut m = vec![0u8; width_bytes];
	let n = (prefix as usize).min(width_bytes * 8);
	for i in 0..n {
		m[i / 8] |= 0x80 >> (i % 8);
	}
	m
}

pub fn cidr_bytes(c: &CidrSpec) -> Vec<u8> {
	match c {
		CidrSpec::Prefix { addr, prefix, .. } => {
			let mut v = addr.0.clone();
			v.extend(prefix_mask(addr.0.len(), *prefix));
			v
		},
		CidrSpec::Raw { addr, mask } => {
			let mut v = addr.0.clone();
			v.extend(&mask.0);
			v
		},
	}
}

pub fn subtree_matches(g: &GeneralName, s: &SubtreeSpec) -> bool {
	match (g, s) {
		(GeneralName::Rfc822(b), SubtreeSpec::Rfc822(t)) => b == t.as_bytes(),
		(GeneralName::Dns(b), SubtreeSpec::Dns(t)) => b == t.as_bytes(),
		(GeneralName::Ip(b), SubtreeSpec::Ip(c)) => *b == cidr_bytes(c),
		(GeneralName::DirectoryName(n), SubtreeSpec::DirName(d)) => name_matches(n, &d.effective(), "subtree").is_ok(),
		_ => false,
	}
}

fn list_matches<A, B>(got: &[A], want: &[B], f: impl Fn(&A, &B) -> bool, what: &str) -> Result<(), String>
where
	A: std::fmt::Debug,
	B: std::fmt::Debug,
{
	if got.len() != want.len() {
		return Err(format!("{what}: {} entries encoded, {} requested: {:?} vs {:?}", got.len(), want.len(), got, want));
	}
	for (i, (g, w)) in got.iter().zip(want.iter()).enumerate() {
		if !f(g, w) {
			return Err(format!("{what}[{i}]: encoded {:?}, requested {:?}", g, w));
		}
	}
	Ok(())
}

#[derive(Debug, Clone)]
pub enum WantValue {
	Aki(Vec<u8>),
	Ski(Vec<u8>),
	KeyUsage(BTreeSet<u32>),
	San(Vec<SanSpec>),
	Eku(BTreeSet<Vec<u64>>),
	BasicConstraints { ca: bool, path_len: Option<u64> },
	NameConstraints(NcSpec),
	CrlDps(Vec<Vec<String>>),
	Raw(Vec<u8>),
}

#[derive(Debug, Clone)]
pub struct WantExt {
	pub oid: Vec<u64>,
	/// `None`: criticality is not part of this expectation
	pub critical: Option<bool>,
	pub value: WantValue,
	/// the extension may be absent (SKI on non-CA certificates)
	pub optional: bool,
}

pub fn ext_value_matches(got: &Ext, want: &WantValue) -> Result<(), String> {
	match (&got.value, want) {
		(ExtValue::Aki { key_id, has_issuer_or_serial }, WantValue::Aki(w)) => {
			if *has_issuer_or_serial {
				return Err("AKI carries issuer/serial fields nobody requested".into());
			}
			if key_id.as_deref() != Some(w.as_slice()) {
				return Err(format!("AKI keyIdentifier {:?}, expected {}", key_id.as_ref().map(|k| der::hex(k)), der::hex(w)));
			}
			Ok(())
		},
		(ExtValue::Ski(g), WantValue::Ski(w)) => {
			if g != w {
				return Err(format!("SKI {}, expected {}", der::hex(g), der::hex(w)));
			}
			Ok(())
		},
		(ExtValue::KeyUsage(bits), WantValue::KeyUsage(w)) => {
			let g: BTreeSet<u32> = bits.iter().copied().collect();
			if &g != w {
				return Err(format!("key usage bits {:?}, requested {:?}", g, w));
			}
			Ok(())
		},
		(ExtValue::San(g), WantValue::San(w)) => list_matches(g, w, san_matches, "subjectAltName"),
		(ExtValue::Eku(g), WantValue::Eku(w)) => {
			let gs: BTreeSet<Vec<u64>> = g.iter().cloned().collect();
			if &gs != w {
				return Err(format!("extended key usages {:?}, requested {:?}", gs, w));
			}
			Ok(())
		},
		(ExtValue::BasicConstraints { ca, path_len }, WantValue::BasicConstraints { ca: wc, path_len: wp }) => {
			if ca != wc || path_len != wp {
				return Err(format!("basicConstraints cA={ca} pathLen={path_len:?}, requested cA={wc} pathLen={wp:?}"));
			}
			Ok(())
		},
		(ExtValue::NameConstraints { permitted, excluded, has_permitted, has_excluded }, WantValue::NameConstraints(w)) => {
			if *has_permitted != !w.permitted.is_empty() || *has_excluded != !w.excluded.is_empty() {
				return Err("nameConstraints: presence of permitted/excluded lists does not match the request".into());
			}
			list_matches(permitted, &w.permitted, subtree_matches, "permittedSubtrees")?;
			list_matches(excluded, &w.excluded, subtree_matches, "excludedSubtrees")
		},
		(ExtValue::CrlDps(g), WantValue::CrlDps(w)) => list_matches(
			g,
			w,
			|dp, uris| {
				dp.full_name.len() == uris.len()
					&& dp.full_name.iter().zip(uris.iter()).all(|(n, u)| matches!(n, GeneralName::Uri(b) if b == u.as_bytes()))
			},
			"cRLDistributionPoints",
		),
		(_, WantValue::Raw(w)) => {
			if &got.value_raw != w {
				return Err(format!("extension content {}, supplied {}", der::hex(&got.value_raw), der::hex(w)));
			}
			Ok(())
		},
		(g, w) => Err(format!("extension {:?} decoded as {:?}, expected {:?}", got.oid, g, w)),
	}
}

/// Multiset comparison of decoded extensions against expectations: everything expected is
/// present with the right value, and nothing else is.
pub fn exts_match(got: &Option<Vec<Ext>>, want: &[WantExt], what: &str) -> Result<(), String> {
	let empty = Vec::new();
	let got = got.as_ref().unwrap_or(&empty);
	let mut used = vec![false; got.len()];
	for w in want {
		let mut last_err = None;
		let mut found = false;
		for (i, g) in got.iter().enumerate() {
			if used[i] || g.oid != w.oid {
				continue;
			}
			match ext_value_matches(g, &w.value) {
				Ok(()) => {
					if let Some(c) = w.critical {
						if g.critical != c {
							last_err = Some(format!("criticality {} but {} requested", g.critical, c));
							continue;
						}
					}
					used[i] = true;
					found = true;
					break;
				},
				Err(e) => last_err = Some(e),
			}
		}
		if !found {
			match last_err {
				Some(e) => return Err(format!("{what}: extension {:?}: {e}", w.oid)),
				None if w.optional => {},
				None => {
					return Err(format!(
						"{what}: requested extension {:?} is missing (present: {:?})",
						w.oid,
						got.iter().map(|g| g.oid.clone()).collect::<Vec<_>>()
					))
				},
			}
		}
	}
	for (i, g) in got.iter().enumerate() {
		if !used[i] {
			return Err(format!("{what}: extension {:?} appears but was not requested", g.oid));
		}
	}
	Ok(())
}

pub struct IssuerInfo<'a> {
	pub dn: &'a DnSpec,
	pub kid: &'a KidSpec,
	pub spki: &'a [u8],
}

pub fn acme_content(digest: &[u8]) -> Vec<u8> {
	der::enc_tlv(0x04, digest)
}

pub fn custom_ext_want(c: &CustomExtSpec) -> WantExt {
	WantExt {
		oid: c.oid.clone(),
		critical: Some(c.critical),
		value: WantValue::Raw(if c.acme { acme_content(&c.content.0) } else { c.content.0.clone() }),
		optional: false,
	}
}

/// Extensions a certificate generated from `spec` must carry (C02).
pub fn cert_want_exts(spec: &CertSpec, subject_spki: &[u8], issuer: &IssuerInfo<'_>) -> Vec<WantExt> {
	let mut w = Vec::new();
	if spec.use_aki {
		w.push(WantExt {
			oid: x509::OID_AKI.to_vec(),
			critical: None,
			value: WantValue::Aki(key_id(issuer.kid, issuer.spki)),
			optional: false,
		});
	}
	if !spec.sans.is_empty() {
		w.push(WantExt {
			oid: x509::OID_SAN.to_vec(),
			critical: None,
			value: WantValue::San(spec.sans.clone()),
			optional: false,
		});
	}
	if !spec.key_usages.is_empty() {
		w.push(WantExt {
			oid: x509::OID_KU.to_vec(),
			critical: None,
			value: WantValue::KeyUsage(spec.key_usages.iter().map(|&b| (b % 9) as u32).collect()),
			optional: false,
		});
	}
	if !spec.ekus.is_empty() {
		w.push(WantExt {
			oid: x509::OID_EKU.to_vec(),
			critical: None,
			value: WantValue::Eku(spec.ekus.iter().map(|e| e.oid()).collect()),
			optional: false,
		});
	}
	if let Some(nc) = &spec.name_constraints {
		if !nc.permitted.is_empty() || !nc.excluded.is_empty() {
			w.push(WantExt {
				oid: x509::OID_NC.to_vec(),
				critical: None,
				value: WantValue::NameConstraints(nc.clone()),
				optional: false,
			});
		}
	}
	if !spec.crl_dps.is_empty() {
		w.push(WantExt {
			oid: x509::OID_CRLDP.to_vec(),
			critical: None,
			value: WantValue::CrlDps(spec.crl_dps.clone()),
			optional: false,
		});
	}
	// SKI: required in CA certificates; wherever present it must be the configured derivation.
	w.push(WantExt {
		oid: x509::OID_SKI.to_vec(),
		critical: None,
		value: WantValue::Ski(key_id(&spec.kid, subject_spki)),
		optional: !matches!(spec.is_ca, IsCaSpec::CaUnconstrained | IsCaSpec::CaConstrained(_)),
	});
	match spec.is_ca {
		IsCaSpec::NoCa => {},
		IsCaSpec::ExplicitNoCa => w.push(WantExt {
			oid: x509::OID_BC.to_vec(),
			critical: None,
			value: WantValue::BasicConstraints { ca: false, path_len: None },
			optional: false,
		}),
		IsCaSpec::CaUnconstrained => w.push(WantExt {
			oid: x509::OID_BC.to_vec(),
			critical: None,
			value: WantValue::BasicConstraints { ca: true, path_len: None },
			optional: false,
		}),
		IsCaSpec::CaConstrained(n) => w.push(WantExt {
			oid: x509::OID_BC.to_vec(),
			critical: None,
			value: WantValue::BasicConstraints { ca: true, path_len: Some(n as u64) },
			optional: false,
		}),
	}
	for c in &spec.custom_exts {
		w.push(custom_ext_want(c));
	}
	w
}

/// Full C02 comparison of a decoded certificate against its spec.
pub fn check_cert(c: &Cert, spec: &CertSpec, subject_spki: &[u8], issuer: &IssuerInfo<'_>) -> Result<(), String> {
	if let Some(s) = &spec.serial {
		let got = der::uint_magnitude(&c.serial).ok_or_else(|| format!("serial {} is negative", der::hex(&c.serial)))?;
		let want = strip_zeros(&s.0);
		if got != want {
			return Err(format!("serial value {} but {} requested", der::hex(&got), der::hex(&want)));
		}
	}
	if c.not_before.unix != spec.not_before.unix {
		return Err(format!("notBefore decodes to {} ({}), requested instant {}", c.not_before.unix, c.not_before.text, spec.not_before.unix));
	}
	if c.not_after.unix != spec.not_after.unix {
		return Err(format!("notAfter decodes to {} ({}), requested instant {}", c.not_after.unix, c.not_after.text, spec.not_after.unix));
	}
	name_matches(&c.subject, &spec.dn.effective(), "subject")?;
	name_matches(&c.issuer, &issuer.dn.effective(), "issuer")?;
	if c.spki.raw != subject_spki {
		return Err(format!(
			"subjectPublicKeyInfo {} differs from the subject key's {}",
			der::hex(&c.spki.raw),
			der::hex(subject_spki)
		));
	}
	let want = cert_want_exts(spec, subject_spki, issuer);
	exts_match(&c.extensions, &want, "certificate")
}
