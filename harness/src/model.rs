//! Reference model: Spec -> what an independent decoder must find in the artefact.

use std::collections::BTreeSet;

use crate::der;
use crate::spec::*;
use crate::x509::{self, Attr, Cert, Ext, ExtValue, GeneralName, Name};

pub fn strip_zeros(b: &[u8]) -> Vec<u8> {
	let mut i = 0;
	while i < b.len() && b[i] == 0 {
		i += 1;
	}
	b[i..].to_vec()
}

/// Key identifier by the configured derivation (RFC 7093 truncated hashes of the
/// SubjectPublicKeyInfo, or the pre-specified bytes), computed with OpenSSL's SHA-2.
pub fn key_id(kid: &KidSpec, spki_der: &[u8]) -> Vec<u8> {
	match kid {
		KidSpec::Pre(b) => b.0.clone(),
		KidSpec::Sha256 => crate::keys::sha(0, spki_der)[..20].to_vec(),
		KidSpec::Sha384 => crate::keys::sha(1, spki_der)[..20].to_vec(),
		KidSpec::Sha512 => crate::keys::sha(2, spki_der)[..20].to_vec(),
	}
}

pub fn attr_matches(a: &Attr, t: &DnTypeSpec, v: &DnValueSpec) -> Result<(), String> {
	if a.oid != t.oid() {
		return Err(format!("attribute type {:?}, expected {:?}", a.oid, t.oid()));
	}
	if a.tag != v.kind.tag() {
		return Err(format!("attribute {:?} has string tag {}, expected {} ({:?})", a.oid, a.tag, v.kind.tag(), v.kind));
	}
	let want = v.kind.encode(&v.text);
	if a.bytes != want {
		return Err(format!(
			"attribute {:?} value bytes {} expected {} (text {:?})",
			a.oid,
			der::hex(&a.bytes),
			der::hex(&want),
			v.text
		));
	}
	Ok(())
}

pub fn name_matches(n: &Name, want: &[(DnTypeSpec, DnValueSpec)], what: &str) -> Result<(), String> {
	let flat = n.flat().ok_or_else(|| format!("{what}: multi-valued RDN in output"))?;
	if flat.len() != want.len() {
		return Err(format!(
			"{what}: {} attributes encoded, {} expected ({:?} vs {:?})",
			flat.len(),
			want.len(),
			flat.iter().map(|a| a.oid.clone()).collect::<Vec<_>>(),
			want.iter().map(|w| w.0.oid()).collect::<Vec<_>>()
		));
	}
	for (i, (a, (t, v))) in flat.iter().zip(want.iter()).enumerate() {
		attr_matches(a, t, v).map_err(|e| format!("{what}[{i}]: {e}"))?;
	}
	Ok(())
}

pub fn san_matches(g: &GeneralName, s: &SanSpec) -> bool {
	match (g, s) {
		(GeneralName::Rfc822(b), SanSpec::Rfc822(t)) => b == t.as_bytes(),
		(GeneralName::Dns(b), SanSpec::Dns(t)) => b == t.as_bytes(),
		(GeneralName::Uri(b), SanSpec::Uri(t)) => b == t.as_bytes(),
		(GeneralName::Ip(b), SanSpec::Ip(x)) => *b == x.0,
		(GeneralName::OtherName { oid, value_tag, value_text, .. }, SanSpec::OtherName(o, t)) => {
			oid == o && *value_tag == der::T_UTF8 && value_text.as_deref() == Some(t.as_str())
		},
		_ => false,
	}
}

/// Mask of a CIDR prefix computed from first principles: the first min(prefix, width) bits set.
pub fn prefix_mask(width_bytes: usize, prefix: u8) -> Vec<u8> {
	let mut m = vec![0u8; width_bytes];
	let n = (prefix as usize).min(width_bytes * 8);
	for i in 0..n {
		m[i / 8] |= 0x80 >> (i % 8);
	}
	m
}

pub fn cidr_bytes(c: &CidrSpec) -> Vec<u8> {
	match c {
		CidrSpec::Prefix { addr, prefix, .. } => {
			let mut v = addr.0.clone();
			v.extend(prefix_mask(addr.0.len(), *prefix));
			v
		},
		CidrSpec::Raw { addr, mask } => {
			let mut v = addr.0.clone();
			v.extend(&mask.0);
			v
		},
	}
}

pub fn subtree_matches(g: &GeneralName, s: &SubtreeSpec) -> bool {
	match (g, s) {
		(GeneralName::Rfc822(b), SubtreeSpec::Rfc822(t)) => b == t.as_bytes(),
		(GeneralName::Dns(b), SubtreeSpec::Dns(t)) => b == t.as_bytes(),
		(GeneralName::Ip(b), SubtreeSpec::Ip(c)) => *b == cidr_bytes(c),
		(GeneralName::DirectoryName(n), SubtreeSpec::DirName(d)) => name_matches(n, &d.effective(), "subtree").is_ok(),
		_ => false,
	}
}

fn list_matches<A, B>(got: &[A], want: &[B], f: impl Fn(&A, &B) -> bool, what: &str) -> Result<(), String>
where
	A: std::fmt::Debug,
	B: std::fmt::Debug,
{
	if got.len() != want.len() {
		return Err(format!("{what}: {} entries encoded, {} requested: {:?} vs {:?}", got.len(), want.len(), got, want));
	}
	for (i, (g, w)) in got.iter().zip(want.iter()).enumerate() {
		if !f(g, w) {
			return Err(format!("{what}[{i}]: encoded {:?}, requested {:?}", g, w));
		}
	}
	Ok(())
}

#[derive(Debug, Clone)]
pub enum WantValue {
	Aki(Vec<u8>),
	Ski(Vec<u8>),
	KeyUsage(BTreeSet<u32>),
	San(Vec<SanSpec>),
	Eku(BTreeSet<Vec<u64>>),
	BasicConstraints { ca: bool, path_len: Option<u64> },
	NameConstraints(NcSpec),
	CrlDps(Vec<Vec<String>>),
	Raw(Vec<u8>),
}

#[derive(Debug, Clone)]
pub struct WantExt {
	pub oid: Vec<u64>,
	/// `None`: criticality is not part of this expectation
	pub critical: Option<bool>,
	pub value: WantValue,
	/// the extension may be absent (SKI on non-CA certificates)
	pub optional: bool,
}

pub fn ext_value_matches(got: &Ext, want: &WantValue) -> Result<(), String> {
	match (&got.value, want) {
		(ExtValue::Aki { key_id, has_issuer_or_serial }, WantValue::Aki(w)) => {
			if *has_issuer_or_serial {
				return Err("AKI carries issuer/serial fields nobody requested".into());
			}
			if key_id.as_deref() != Some(w.as_slice()) {
				return Err(format!("AKI keyIdentifier {:?}, expected {}", key_id.as_ref().map(|k| der::hex(k)), der::hex(w)));
			}
			Ok(())
		},
		(ExtValue::Ski(g), WantValue::Ski(w)) => {
			if g != w {
				return Err(format!("SKI {}, expected {}", der::hex(g), der::hex(w)));
			}
			Ok(())
		},
		(ExtValue::KeyUsage(bits), WantValue::KeyUsage(w)) => {
			let g: BTreeSet<u32> = bits.iter().copied().collect();
			if &g != w {
				return Err(format!("key usage bits {:?}, requested {:?}", g, w));
			}
			Ok(())
		},
		(ExtValue::San(g), WantValue::San(w)) => list_matches(g, w, san_matches, "subjectAltName"),
		(ExtValue::Eku(g), WantValue::Eku(w)) => {
			let gs: BTreeSet<Vec<u64>> = g.iter().cloned().collect();
			if &gs != w {
				return Err(format!("extended key usages {:?}, requested {:?}", gs, w));
			}
			Ok(())
		},
		(ExtValue::BasicConstraints { ca, path_len }, WantValue::BasicConstraints { ca: wc, path_len: wp }) => {
			if ca != wc || path_len != wp {
				return Err(format!("basicConstraints cA={ca} pathLen={path_len:?}, requested cA={wc} pathLen={wp:?}"));
			}
			Ok(())
		},
		(ExtValue::NameConstraints { permitted, excluded, has_permitted, has_excluded }, WantValue::NameConstraints(w)) => {
			if *has_permitted != !w.permitted.is_empty() || *has_excluded != !w.excluded.is_empty() {
				return Err("nameConstraints: presence of permitted/excluded lists does not match the request".into());
			}
			list_matches(permitted, &w.permitted, subtree_matches, "permittedSubtrees")?;
			list_matches(excluded, &w.excluded, subtree_matches, "excludedSubtrees")
		},
		(ExtValue::CrlDps(g), WantValue::CrlDps(w)) => list_matches(
			g,
			w,
			|dp, uris| {
				dp.full_name.len() == uris.len()
					&& dp.full_name.iter().zip(uris.iter()).all(|(n, u)| matches!(n, GeneralName::Uri(b) if b == u.as_bytes()))
			},
			"cRLDistributionPoints",
		),
		(_, WantValue::Raw(w)) => {
			if &got.value_raw != w {
				return Err(format!("extension content {}, supplied {}", der::hex(&got.value_raw), der::hex(w)));
			}
			Ok(())
		},
		(g, w) => Err(format!("extension {:?} decoded as {:?}, expected {:?}", got.oid, g, w)),
	}
}

/// Multiset comparison of decoded extensions against expectations: everything expected is
/// present with the right value, and nothing else is.
pub fn exts_match(got: &Option<Vec<Ext>>, want: &[WantExt], what: &str) -> Result<(), String> {
	let empty = Vec::new();
	let got = got.as_ref().unwrap_or(&empty);
	let mut used = vec![false; got.len()];
	for w in want {
		let mut last_err = None;
		let mut found = false;
		for (i, g) in got.iter().enumerate() {
			if used[i] || g.oid != w.oid {
				continue;
			}
			match ext_value_matches(g, &w.value) {
				Ok(()) => {
					if let Some(c) = w.critical {
						if g.critical != c {
							last_err = Some(format!("criticality {} but {} requested", g.critical, c));
							continue;
						}
					}
					used[i] = true;
					found = true;
					break;
				},
				Err(e) => last_err = Some(e),
			}
		}
		if !found {
			match last_err {
				Some(e) => return Err(format!("{what}: extension {:?}: {e}", w.oid)),
				None if w.optional => {},
				None => {
					return Err(format!(
						"{what}: requested extension {:?} is missing (present: {:?})",
						w.oid,
						got.iter().map(|g| g.oid.clone()).collect::<Vec<_>>()
					))
				},
			}
		}
	}
	for (i, g) in got.iter().enumerate() {
		if !used[i] {
			return Err(format!("{what}: extension {:?} appears but was not requested", g.oid));
		}
	}
	Ok(())
}

pub struct IssuerInfo<'a> {
	pub dn: &'a DnSpec,
	pub kid: &'a KidSpec,
	pub spki: &'a [u8],
}

pub fn acme_content(digest: &[u8]) -> Vec<u8> {
	der::enc_tlv(0x04, digest)
}

pub fn custom_ext_want(c: &CustomExtSpec) -> WantExt {
	WantExt {
		oid: c.oid.clone(),
		critical: Some(c.critical),
		value: WantValue::Raw(if c.acme { acme_content(&c.content.0) } else { c.content.0.clone() }),
		optional: false,
	}
}

/// Extensions a certificate generated from `spec` must carry (C02).
pub fn cert_want_exts(spec: &CertSpec, subject_spki: &[u8], issuer: &IssuerInfo<'_>) -> Vec<WantExt> {
	let mut w = Vec::new();
	if spec.use_aki {
		w.push(WantExt {
			oid: x509::OID_AKI.to_vec(),
			critical: None,
			value: WantValue::Aki(key_id(issuer.kid, issuer.spki)),
			optional: false,
		});
	}
	if !spec.sans.is_empty() {
		w.push(WantExt {
			oid: x509::OID_SAN.to_vec(),
			critical: None,
			value: WantValue::San(spec.sans.clone()),
			optional: false,
		});
	}
	if !spec.key_usages.is_empty() {
		w.push(WantExt {
			oid: x509::OID_KU.to_vec(),
			critical: None,
			value: WantValue::KeyUsage(spec.key_usages.iter().map(|&b| (b % 9) as u32).collect()),
			optional: false,
		});
	}
	if !spec.ekus.is_empty() {
		w.push(WantExt {
			oid: x509::OID_EKU.to_vec(),
			critical: None,
			value: WantValue::Eku(spec.ekus.iter().map(|e| e.oid()).collect()),
			optional: false,
		});
	}
	if let Some(nc) = &spec.name_constraints {
		if !nc.permitted.is_empty() || !nc.excluded.is_empty() {
			w.push(WantExt {
				oid: x509::OID_NC.to_vec(),
				critical: None,
				value: WantValue::NameConstraints(nc.clone()),
				optional: false,
			});
		}
	}
	if !spec.crl_dps.is_empty() {
		w.push(WantExt {
			oid: x509::OID_CRLDP.to_vec(),
			critical: None,
			value: WantValue::CrlDps(spec.crl_dps.clone()),
			optional: false,
		});
	}
	// SKI: required in CA certificates; wherever present it must be the configured derivation.
	w.push(WantExt {
		oid: x509::OID_SKI.to_vec(),
		critical: None,
		value: WantValue::Ski(key_id(&spec.kid, subject_spki)),
		optional: !matches!(spec.is_ca, IsCaSpec::CaUnconstrained | IsCaSpec::CaConstrained(_)),
	});
	match spec.is_ca {
		IsCaSpec::NoCa => {},
		IsCaSpec::ExplicitNoCa => w.push(WantExt {
			oid: x509::OID_BC.to_vec(),
			critical: None,
			value: WantValue::BasicConstraints { ca: false, path_len: None },
			optional: false,
		}),
		IsCaSpec::CaUnconstrained => w.push(WantExt {
			oid: x509::OID_BC.to_vec(),
			critical: None,
			value: WantValue::BasicConstraints { ca: true, path_len: None },
			optional: false,
		}),
		IsCaSpec::CaConstrained(n) => w.push(WantExt {
			oid: x509::OID_BC.to_vec(),
			critical: None,
			value: WantValue::BasicConstraints { ca: true, path_len: Some(n as u64) },
			optional: false,
		}),
	}
	for c in &spec.custom_exts {
		w.push(custom_ext_want(c));
	}
	w
}

/// Full C02 comparison of a decoded certificate against its spec.
pub fn check_cert(c: &Cert, spec: &CertSpec, subject_spki: &[u8], issuer: &IssuerInfo<'_>) -> Result<(), String> {
	if let Some(s) = &spec.serial {
		let got = der::uint_magnitude(&c.serial).ok_or_else(|| format!("serial {} is negative", der::hex(&c.serial)))?;
		let want = strip_zeros(&s.0);
		if got != want {
			return Err(format!("serial value {} but {} requested", der::hex(&got), der::hex(&want)));
		}
	}
	if c.not_before.unix != spec.not_before.unix {
		return Err(format!("notBefore decodes to {} ({}), requested instant {}", c.not_before.unix, c.not_before.text, spec.not_before.unix));
	}
	if c.not_after.unix != spec.not_after.unix {
		return Err(format!("notAfter decodes to {} ({}), requested instant {}", c.not_after.unix, c.not_after.text, spec.not_after.unix));
	}
	name_matches(&c.subject, &spec.dn.effective(), "subject")?;
	name_matches(&c.issuer, &issuer.dn.effective(), "issuer")?;
	if c.spki.raw != subject_spki {
		return Err(format!(
			"subjectPublicKeyInfo {} differs from the subject key's {}",
			der::hex(&c.spki.raw),
			der::hex(subject_spki)
		));
	}
	let want = cert_want_exts(spec, subject_spki, issuer);
	exts_match(&c.extensions, &want, "certificate")
}

// ---------------------------------------------------------------------------------------------
// CSR (C07)

/// Extensions the extensionRequest of a CSR generated from `spec` must contain.
pub fn csr_want_exts(spec: &CertSpec) -> Vec<WantExt> {
	let mut w = Vec::new();
	if !spec.key_usages.is_empty() {
		w.push(WantExt {
			oid: x509::OID_KU.to_vec(),
			critical: None,
			value: WantValue::KeyUsage(spec.key_usages.iter().map(|&b| (b % 9) as u32).collect()),
			optional: false,
		});
	}
	if !spec.sans.is_empty() {
		w.push(WantExt {
			oid: x509::OID_SAN.to_vec(),
			critical: None,
			value: WantValue::San(spec.sans.clone()),
			optional: false,
		});
	}
	if !spec.ekus.is_empty() {
		w.push(WantExt {
			oid: x509::OID_EKU.to_vec(),
			critical: None,
			value: WantValue::Eku(spec.ekus.iter().map(|e| e.oid()).collect()),
			optional: false,
		});
	}
	for c in &spec.custom_exts {
		w.push(custom_ext_want(c));
	}
	w
}

pub fn check_csr(c: &x509::Csr, spec: &CertSpec, subject_spki: &[u8], attrs: &[(Vec<u64>, Vec<u8>)]) -> Result<(), String> {
	if c.version != 0 {
		return Err(format!("CSR version {} (must be 0)", c.version));
	}
	name_matches(&c.subject, &spec.dn.effective(), "csr subject")?;
	if c.spki.raw != subject_spki {
		return Err("CSR SubjectPublicKeyInfo differs from the requester's key".into());
	}
	if !c.attributes_present {
		return Err("CSR attributes [0] field is absent".into());
	}
	let want_exts = csr_want_exts(spec);
	let want_req = !want_exts.is_empty();
	if c.ext_requests.len() != want_req as usize {
		return Err(format!(
			"{} extensionRequest attribute(s) present, {} expected",
			c.ext_requests.len(),
			want_req as usize
		));
	}
	if want_req {
		exts_match(&Some(c.ext_requests[0].clone()), &want_exts, "extensionRequest")?;
	}
	// caller-supplied attributes byte for byte, as a multiset
	let mut got: Vec<(Vec<u64>, Vec<u8>)> = c
		.attributes
		.iter()
		.filter(|a| a.oid != x509::OID_EXT_REQ)
		.map(|a| (a.oid.clone(), a.values_raw.clone()))
		.collect();
	let mut want: Vec<(Vec<u64>, Vec<u8>)> = attrs.to_vec();
	got.sort();
	want.sort();
	if got != want {
		return Err(format!(
			"caller attributes not embedded unchanged: encoded {:?}, supplied {:?}",
			got.iter().map(|(o, v)| (o.clone(), der::hex(v))).collect::<Vec<_>>(),
			want.iter().map(|(o, v)| (o.clone(), der::hex(v))).collect::<Vec<_>>()
		));
	}
	Ok(())
}

// ---------------------------------------------------------------------------------------------
// CRL (C08)

pub fn check_crl(c: &x509::Crl, spec: &CrlSpec, issuer_dn: &DnSpec, issuer_spki: &[u8]) -> Result<(), String> {
	name_matches(&c.issuer, &issuer_dn.effective(), "crl issuer")?;
	if c.this_update.unix != spec.this_update.unix {
		return Err(format!("thisUpdate decodes to {} ({}), requested {}", c.this_update.unix, c.this_update.text, spec.this_update.unix));
	}
	let nu = c.next_update.as_ref().ok_or("nextUpdate is absent")?;
	if nu.unix != spec.next_update.unix {
		return Err(format!("nextUpdate decodes to {} ({}), requested {}", nu.unix, nu.text, spec.next_update.unix));
	}
	// CRL-level extensions
	let exts = c.extensions.as_ref().ok_or("crlExtensions absent")?;
	let mut seen_aki = false;
	let mut seen_num = false;
	let mut seen_idp = false;
	for e in exts {
		match &e.value {
			ExtValue::Aki { key_id, has_issuer_or_serial } => {
				let want = key_id_for_crl(&spec.kid, issuer_spki);
				if *has_issuer_or_serial || key_id.as_deref() != Some(want.as_slice()) {
					return Err(format!(
						"CRL AKI {:?}, expected {} (chosen method over the issuer key)",
						key_id.as_ref().map(|k| der::hex(k)),
						der::hex(&want)
					));
				}
				if seen_aki {
					return Err("two AKI extensions".into());
				}
				seen_aki = true;
			},
			ExtValue::CrlNumber(n) => {
				let got = der::uint_magnitude(n).ok_or("negative CRL number")?;
				if got != strip_zeros(&spec.crl_number.0) {
					return Err(format!("CRL number {} but {} requested", der::hex(&got), der::hex(&strip_zeros(&spec.crl_number.0))));
				}
				if seen_num {
					return Err("two CRL number extensions".into());
				}
				seen_num = true;
			},
			ExtValue::Idp { full_name, only_user, only_ca, other_fields } => {
				let want = spec.idp.as_ref().ok_or("issuingDistributionPoint present but not requested")?;
				if *other_fields {
					return Err("issuingDistributionPoint carries fields nobody requested".into());
				}
				let names = full_name.as_ref().ok_or("issuingDistributionPoint without distributionPoint")?;
				list_matches(names, &want.uris, |n, u| matches!(n, GeneralName::Uri(b) if b == u.as_bytes()), "idp.fullName")?;
				let (wu, wc) = match want.scope {
					None => (false, false),
					Some(ScopeSpec::User) => (true, false),
					Some(ScopeSpec::Ca) => (false, true),
				};
				if *only_user != wu || *only_ca != wc {
					return Err(format!("IDP scope onlyUser={only_user} onlyCA={only_ca}, requested {:?}", want.scope));
				}
				if seen_idp {
					return Err("two IDP extensions".into());
				}
				seen_idp = true;
			},
			_ => return Err(format!("CRL extension {:?} appears but was not requested", e.oid)),
		}
	}
	if !seen_aki {
		return Err("CRL has no authority key identifier".into());
	}
	if !seen_num {
		return Err("CRL has no CRL number".into());
	}
	if spec.idp.is_some() && !seen_idp {
		return Err("requested issuingDistributionPoint is missing".into());
	}
	// entries
	let empty = Vec::new();
	let entries = c.revoked.as_ref().unwrap_or(&empty);
	if entries.len() != spec.revoked.len() {
		return Err(format!("{} revoked entries encoded, {} requested", entries.len(), spec.revoked.len()));
	}
	for (i, (e, w)) in entries.iter().zip(spec.revoked.iter()).enumerate() {
		let got = der::uint_magnitude(&e.serial).ok_or_else(|| format!("entry {i}: negative serial"))?;
		if got != strip_zeros(&w.serial.0) {
			return Err(format!("entry {i}: serial {} but {} requested", der::hex(&got), der::hex(&strip_zeros(&w.serial.0))));
		}
		if e.revocation_date.unix != w.revocation_time.unix {
			return Err(format!("entry {i}: revocationDate {} ({}), requested {}", e.revocation_date.unix, e.revocation_date.text, w.revocation_time.unix));
		}
		let mut reason: Option<u64> = None;
		let mut inv: Option<&der::TimeVal> = None;
		for x in e.extensions.iter().flatten() {
			match &x.value {
				ExtValue::Reason(r) => {
					if reason.is_some() {
						return Err(format!("entry {i}: two reason codes"));
					}
					reason = Some(*r)
				},
				ExtValue::InvalidityDate(t) => {
					if inv.is_some() {
						return Err(format!("entry {i}: two invalidity dates"));
					}
					inv = Some(t)
				},
				_ => return Err(format!("entry {i}: extension {:?} appears but was not requested", x.oid)),
			}
		}
		// absent and unspecified(0) are equivalent
		let want_reason = w.reason.map(|r| r.code()).unwrap_or(0);
		if reason.unwrap_or(0) != want_reason {
			return Err(format!("entry {i}: reason code {:?}, requested {:?}", reason, w.reason));
		}
		match (inv, &w.invalidity_date) {
			(None, None) => {},
			(Some(t), Some(wt)) => {
				if t.unix != wt.unix {
					return Err(format!("entry {i}: invalidityDate {} ({}), requested {}", t.unix, t.text, wt.unix));
				}
				if t.form != der::TimeForm::Generalized {
					return Err(format!("entry {i}: invalidityDate '{}' is not encoded as GeneralizedTime", t.text));
				}
			},
			(g, w) => return Err(format!("entry {i}: invalidityDate present={} requested={}", g.is_some(), w.is_some())),
		}
	}
	Ok(())
}

pub fn key_id_for_crl(kid: &KidSpec, issuer_spki: &[u8]) -> Vec<u8> {
	key_id(kid, issuer_spki)
}
