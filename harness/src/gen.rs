//! proptest strategies for the Spec types. Every random choice of every check is made here.

use proptest::collection::vec;
use proptest::prelude::*;
use proptest::sample::select;

use crate::keys;
use crate::spec::*;

pub const Y0_START: i64 = -62167219200; // 0000-01-01T00:00:00Z
pub const Y1950: i64 = -631152000; // 1950-01-01T00:00:00Z
pub const Y2050: i64 = 2524608000; // 2050-01-01T00:00:00Z
pub const Y9999_END: i64 = 253402300799; // 9999-12-31T23:59:59Z
pub const MAX_OFFSET: i32 = 93599; // +-25:59:59, the range of time::UtcOffset

pub const PRINTABLE_ALPHABET: &str =
	"ABCDEFGHIJKLMNOPQRSTUVWXYZabcdefghijklmnopqrstuvwxyz0123456789 '()+,-./:=?";

fn boundary_chars() -> Vec<char> {
	[
		0x0u32, 0x1, 0x1f, 0x20, 0x7e, 0x7f, 0x80, 0xff, 0x100, 0x7ff, 0x800, 0xd7ff, 0xe000, 0xfffd, 0xfffe,
		0xffff, 0x10000, 0x10ffff,
	]
	.iter()
	.filter_map(|&u| char::from_u32(u))
	.collect()
}

pub fn char_for(kind: StrKind) -> BoxedStrategy<char> {
	match kind {
		StrKind::Utf8 | StrKind::Universal => prop_oneof![
			4 => (0x20u8..0x7f).prop_map(|b| b as char),
			2 => select(boundary_chars()),
			2 => any::<char>(),
		]
		.boxed(),
		StrKind::Printable => select(PRINTABLE_ALPHABET.chars().collect::<Vec<_>>()).boxed(),
		StrKind::Ia5 => prop_oneof![
			5 => (0x20u8..0x7f).prop_map(|b| b as char),
			1 => (0u8..=0x7f).prop_map(|b| b as char),
		]
		.boxed(),
		StrKind::Teletex => (0x20u8..=0x7f).prop_map(|b| b as char).boxed(),
		StrKind::Bmp => prop_oneof![
			4 => (0x20u8..0x7f).prop_map(|b| b as char),
			2 => select(boundary_chars().into_iter().filter(|c| (*c as u32) <= 0xfffe).collect::<Vec<_>>()),
			2 => (0u32..=0xfffe).prop_filter_map("surrogate", char::from_u32),
		]
		.boxed(),
	}
}

pub fn text_for(kind: StrKind, max: usize) -> BoxedStrategy<String> {
	vec(char_for(kind), 0..=max)
		.prop_map(|v| v.into_iter().collect::<String>())
		.boxed()
}

pub fn str_kind() -> impl Strategy<Value = StrKind> {
	select(ALL_STR_KINDS.to_vec())
}

pub fn dn_value() -> impl Strategy<Value = DnValueSpec> {
	dn_value_sized(false)
}

/// `huge`: also values of 70 000 octets (three length octets). Not for cases that are shown to
/// webpki, whose DER reader stops at two length octets.
pub fn dn_value_sized(huge: bool) -> impl Strategy<Value = DnValueSpec> {
	let sizes = if huge { vec![126usize, 127, 128, 129, 254, 255, 256, 257, 70_000] } else { vec![126usize, 127, 128, 129, 254, 255, 256, 257] };
	str_kind().prop_flat_map(move |kind| {
		let sizes = sizes.clone();
		prop_oneof![
			// inside the alphabet
			30 => text_for(kind, 10).prop_map(move |text| DnValueSpec::new(kind, text)),
			// shapes a special case could key on: two-letter (country) codes, the empty string, digits only
			3 => "[A-Z]{2}|[a-z]{2}|[A-Z][a-z]|[0-9]{1,3}".prop_map(move |text| DnValueSpec::new(kind, text)),
			1 => Just(DnValueSpec::new(kind, "")),
			// lengths that cross the short/long form boundaries of DER lengths (127/128, 255/256 octets)
			1 => (prop::sample::select(sizes), char_for(kind))
				.prop_map(move |(n, c)| DnValueSpec::new(kind, std::iter::repeat(c).take(n / kind.encode(&c.to_string()).len().max(1) + 1).collect::<String>())),
			// offered to the constructor although it may lie outside the alphabet
			2 => (text_for(kind, 6), char_for(StrKind::Utf8), 0usize..7).prop_map(move |(mut text, c, pos)| {
				let at = text.char_indices().nth(pos).map_or(text.len(), |x| x.0);
				text.insert(at, c);
				DnValueSpec { kind, text, attempt: true }
			}),
		]
	})
}

fn arc() -> impl Strategy<Value = u64> {
	prop_oneof![
		6 => 0u64..40,
		1 => select(vec![127u64, 128, 16383, 16384, 2097151, 2097152]),
		2 => any::<u32>().prop_map(|x| x as u64),
		1 => any::<u64>(),
	]
}

fn small_arc() -> impl Strategy<Value = u64> {
	prop_oneof![
		6 => 0u64..40,
		1 => select(vec![127u64, 128, 16383, 16384, 2097151, 2097152]),
		2 => any::<u32>().prop_map(|x| x as u64),
	]
}

/// Well-formed OIDs as X.660 defines them: first arc 0..=2, second < 40 under arcs 0 and 1.
pub fn valid_oid() -> impl Strategy<Value = Vec<u64>> {
	(0u64..3, 0u64..40, prop_oneof![8 => Just(None), 1 => Just(Some(999u64)), 1 => (40u64..(u64::MAX - 81)).prop_map(Some)], vec(arc(), 0..7))
		.prop_map(|(a, b, big, rest)| {
			let b = if a == 2 { big.unwrap_or(b) } else { b };
			let mut v = vec![a, b];
			v.extend(rest);
			v
		})
}

/// Well-formed OIDs with arcs below 2^32 (what every decoder involved can represent).
pub fn moderate_oid() -> impl Strategy<Value = Vec<u64>> {
	(0u64..3, 0u64..40, vec(small_arc(), 1..7)).prop_map(|(a, b, rest)| {
		let mut v = vec![a, b];
		v.extend(rest);
		v
	})
}

pub const KNOWN_EXT_OIDS: [&[u64]; 12] = [
	crate::x509::OID_AKI,
	crate::x509::OID_SKI,
	crate::x509::OID_KU,
	crate::x509::OID_SAN,
	crate::x509::OID_BC,
	crate::x509::OID_NC,
	crate::x509::OID_CRLDP,
	crate::x509::OID_EKU,
	crate::x509::OID_CRL_NUMBER,
	crate::x509::OID_CRL_REASON,
	crate::x509::OID_INVALIDITY_DATE,
	crate::x509::OID_IDP,
];

/// An extension OID that is none of the ones rcgen writes itself.
pub fn custom_ext_oid(moderate: bool) -> BoxedStrategy<Vec<u64>> {
	let base = if moderate { moderate_oid().boxed() } else { valid_oid().boxed() };
	base.prop_map(|mut v| {
		if KNOWN_EXT_OIDS.iter().any(|k| *k == v.as_slice()) || v == [1, 3, 6, 1, 5, 5, 7, 1, 31] {
			v.push(1);
		}
		v
	})
	.boxed()
}

pub fn dn_type(custom_moderate: bool) -> BoxedStrategy<DnTypeSpec> {
	let custom = if custom_moderate { moderate_oid().boxed() } else { valid_oid().boxed() };
	prop_oneof![
		2 => Just(DnTypeSpec::Country),
		2 => Just(DnTypeSpec::Locality),
		2 => Just(DnTypeSpec::State),
		2 => Just(DnTypeSpec::Org),
		2 => Just(DnTypeSpec::OrgUnit),
		3 => Just(DnTypeSpec::CommonName),
		1 => Just(DnTypeSpec::Custom(vec![1, 2, 840, 113549, 1, 9, 1])),
		1 => Just(DnTypeSpec::Custom(vec![0, 9, 2342, 19200300, 100, 1, 25])),
		// the rest of the X.520 / RFC 4519 set and friends, which a library may one day give names to
		2 => select(vec![
			vec![2u64, 5, 4, 4], vec![2, 5, 4, 5], vec![2, 5, 4, 9], vec![2, 5, 4, 12], vec![2, 5, 4, 13], vec![2, 5, 4, 15], vec![2, 5, 4, 17], vec![2, 5, 4, 20],
			vec![2, 5, 4, 41], vec![2, 5, 4, 42], vec![2, 5, 4, 43], vec![2, 5, 4, 44], vec![2, 5, 4, 45], vec![2, 5, 4, 46], vec![2, 5, 4, 65], vec![2, 5, 4, 97],
			vec![0, 9, 2342, 19200300, 100, 1, 1], vec![1, 2, 840, 113549, 1, 9, 2], vec![1, 2, 840, 113549, 1, 9, 8],
			vec![1, 3, 6, 1, 4, 1, 311, 60, 2, 1, 1], vec![1, 3, 6, 1, 4, 1, 311, 60, 2, 1, 2], vec![1, 3, 6, 1, 4, 1, 311, 60, 2, 1, 3], vec![2, 5, 4, 0], vec![2, 5, 4, 1],
		]).prop_map(DnTypeSpec::Custom),
		2 => custom.prop_map(DnTypeSpec::Custom),
	]
	.boxed()
}

/// Push sequences; `allow_same_oid` lets a custom type repeat the OID of another entry
/// (two attributes of the same type in the encoded name).
pub fn dn(max: usize, custom_moderate: bool, allow_same_oid: bool) -> BoxedStrategy<DnSpec> {
	let same = if allow_same_oid {
		prop_oneof![9 => Just(None), 1 => select(vec![vec![2u64, 5, 4, 3], vec![2, 5, 4, 11], vec![2, 5, 4, 10]]).prop_map(Some)].boxed()
	} else {
		Just(None).boxed()
	};
	(vec((dn_type(custom_moderate), dn_value_sized(!custom_moderate)), 0..=max), same)
		.prop_map(move |(mut v, same)| {
			if let Some(oid) = same {
				if let Some(e) = v.first_mut() {
					e.0 = DnTypeSpec::Custom(oid);
				}
			}
			if !allow_same_oid {
				// keep OIDs distinct: a later entry with an OID already used is dropped unless it is
				// the very same type (which replaces, by map semantics)
				let mut out: Vec<(DnTypeSpec, DnValueSpec)> = Vec::new();
				for (t, val) in v {
					if out.iter().any(|(t2, _)| *t2 != t && t2.oid() == t.oid()) {
						continue;
					}
					out.push((t, val));
				}
				return DnSpec(out);
			}
			DnSpec(v)
		})
		.boxed()
}

pub fn ip_bytes() -> impl Strategy<Value = Hex> {
	let v6 = |prefix: Vec<u8>| vec(any::<u8>(), 16 - prefix.len()).prop_map(move |rest| [prefix.clone(), rest].concat());
	prop_oneof![
		6 => vec(any::<u8>(), 4),
		6 => vec(any::<u8>(), 16),
		2 => select(vec![vec![0u8; 4], vec![255u8; 4], vec![127, 0, 0, 1], vec![0u8; 16], vec![255u8; 16]]),
		// IPv6 addresses with special structure: IPv4-mapped, IPv4-compatible, NAT64, loopback, link-local, 6to4
		2 => v6(vec![0, 0, 0, 0, 0, 0, 0, 0, 0, 0, 0xff, 0xff]),
		1 => v6(vec![0; 12]),
		1 => v6(vec![0, 0x64, 0xff, 0x9b, 0, 0, 0, 0, 0, 0, 0, 0]),
		1 => Just([vec![0u8; 15], vec![1]].concat()),
		1 => v6(vec![0xfe, 0x80, 0, 0, 0, 0, 0, 0]),
		1 => v6(vec![0x20, 0x02]),
	]
	.prop_map(Hex)
}

fn hostname() -> impl Strategy<Value = String> {
	vec("[a-z0-9]{1,8}", 1..4).prop_map(|v| v.join("."))
}

pub fn ia5_text(max: usize) -> BoxedStrategy<String> {
	prop_oneof![
		9 => hostname(),
		6 => text_for(StrKind::Ia5, max),
		// texts that look like something else: IP literals, the empty string
		1 => select(vec!["10.0.0.1", "::1", "::", "1.2.3.4", "fe80::1", "255.255.255.255", "::ffff:1.2.3.4", "2001:db8::1", "", "0", "1.2.3"]).prop_map(|s| s.to_string()),
		// texts with syntax a tidy-minded writer might "normalise": brackets, quotes, dots, case, blanks, schemes
		1 => select(vec![
			"<alice@example.com>", "<>", "<a", "a>", "\"q\"@example.com", "Alice <alice@example.com>", "alice@example.com.", "user@[1.2.3.4]", "mailto:alice@example.com",
			"example.com.", ".example.com", "*.example.com", "EXAMPLE.com", "Host.Example.COM", "host.example.com", " example.com", "example.com ", "ex ample.com",
			"HTTP://Example.COM/", "http://example.com:80/a/../b", "http://example.com/%7euser", "urn:uuid:0", "xn--bcher-kva.example", "a..b", "-", "_srv._tcp.example.com",
		]).prop_map(|s| s.to_string()),
		// lengths around the short/long form boundaries of DER lengths
		1 => (select(vec![120usize, 248]), 0usize..14).prop_map(|(n, d)| format!("{}.example", "a".repeat(n + d))),
	]
	.boxed()
}

fn other_name_text() -> BoxedStrategy<String> {
	prop_oneof![
		8 => text_for(StrKind::Utf8, 8),
		1 => (select(vec![118usize, 246]), 0usize..14, char_for(StrKind::Utf8)).prop_map(|(n, d, c)| format!("{}{c}", "n".repeat(n + d))),
	]
	.boxed()
}

pub fn san(moderate: bool) -> BoxedStrategy<SanSpec> {
	let o = if moderate { moderate_oid().boxed() } else { valid_oid().boxed() };
	prop_oneof![
		2 => ia5_text(12).prop_map(SanSpec::Rfc822),
		4 => ia5_text(12).prop_map(SanSpec::Dns),
		2 => ia5_text(12).prop_map(|s| SanSpec::Uri(format!("http://{s}"))),
		1 => text_for(StrKind::Ia5, 12).prop_map(SanSpec::Uri),
		3 => ip_bytes().prop_map(SanSpec::Ip),
		2 => (o, other_name_text()).prop_map(|(o, t)| SanSpec::OtherName(o, t)),
	]
	.boxed()
}

pub fn is_ca_any() -> impl Strategy<Value = IsCaSpec> {
	prop_oneof![
		3 => Just(IsCaSpec::NoCa),
		2 => Just(IsCaSpec::ExplicitNoCa),
		2 => Just(IsCaSpec::CaUnconstrained),
		3 => any::<u8>().prop_map(IsCaSpec::CaConstrained),
	]
}

pub fn is_ca_set() -> impl Strategy<Value = IsCaSpec> {
	prop_oneof![
		2 => Just(IsCaSpec::ExplicitNoCa),
		2 => Just(IsCaSpec::CaUnconstrained),
		3 => prop_oneof![Just(0u8), Just(1), Just(127), Just(128), Just(255), any::<u8>()].prop_map(IsCaSpec::CaConstrained),
	]
}

pub fn key_usages(min: usize) -> impl Strategy<Value = Vec<KuBit>> {
	prop_oneof![
		6 => vec(0u8..9, min..6),
		1 => Just((0u8..9).collect::<Vec<_>>()),
		1 => Just(vec![8u8]),
		1 => Just(vec![7u8]),
	]
}

pub fn eku(moderate: bool, standard_only: bool) -> BoxedStrategy<EkuSpec> {
	let o = if moderate { moderate_oid().boxed() } else { valid_oid().boxed() };
	let std = select(vec![
		EkuSpec::Any,
		EkuSpec::ServerAuth,
		EkuSpec::ClientAuth,
		EkuSpec::CodeSigning,
		EkuSpec::EmailProtection,
		EkuSpec::TimeStamping,
		EkuSpec::OcspSigning,
	]);
	if standard_only {
		std.boxed()
	} else {
		prop_oneof![5 => std, 1 => o.prop_map(EkuSpec::Other)].boxed()
	}
}

pub fn cidr() -> impl Strategy<Value = CidrSpec> {
	let prefix = prop_oneof![
		3 => any::<u8>(),
		1 => select(vec![0u8, 1, 7, 8, 9, 24, 31, 32, 33, 64, 127, 128, 129, 255]),
	];
	prop_oneof![
		3 => (prop_oneof![vec(any::<u8>(), 4), vec(any::<u8>(), 16)], prefix, 0u8..3)
			.prop_map(|(a, prefix, ctor)| CidrSpec::Prefix { addr: Hex(a), prefix, ctor }),
		1 => prop_oneof![
			(vec(any::<u8>(), 4), vec(any::<u8>(), 4)),
			(vec(any::<u8>(), 16), vec(any::<u8>(), 16))
		]
		.prop_map(|(a, m)| CidrSpec::Raw { addr: Hex(a), mask: Hex(m) }),
	]
}

pub fn subtree(with_dirname: bool) -> BoxedStrategy<SubtreeSpec> {
	if with_dirname {
		prop_oneof![
			2 => ia5_text(10).prop_map(SubtreeSpec::Rfc822),
			3 => ia5_text(10).prop_map(SubtreeSpec::Dns),
			2 => dn(3, true, false).prop_map(SubtreeSpec::DirName),
			3 => cidr().prop_map(SubtreeSpec::Ip),
		]
		.boxed()
	} else {
		prop_oneof![
			2 => ia5_text(10).prop_map(SubtreeSpec::Rfc822),
			3 => ia5_text(10).prop_map(SubtreeSpec::Dns),
			3 => cidr().prop_map(SubtreeSpec::Ip),
		]
		.boxed()
	}
}

/// Name constraints with at least one subtree.
pub fn nc_nonempty(with_dirname: bool) -> impl Strategy<Value = NcSpec> {
	(vec(subtree(with_dirname), 0..3), vec(subtree(with_dirname), 0..3), subtree(with_dirname), any::<bool>()).prop_map(
		|(mut permitted, mut excluded, extra, side)| {
			if permitted.is_empty() && excluded.is_empty() {
				if side {
					permitted.push(extra)
				} else {
					excluded.push(extra)
				}
			}
			NcSpec { permitted, excluded }
		},
	)
}

fn uri() -> impl Strategy<Value = String> {
	prop_oneof![
		3 => hostname().prop_map(|h| format!("http://{h}/crl")),
		1 => hostname().prop_map(|h| format!("ldap://{h}/cn=x?certificateRevocationList")),
		1 => text_for(StrKind::Ia5, 16),
		// spellings a tidy-minded writer might "canonicalise": upper-case scheme / host, default port,
		// dot segments, percent escapes, trailing dot, userinfo, an IPv6 literal, no authority at all
		1 => select(vec![
			"HTTP://PKI.Example.COM/CertEnroll/Root-CA.crl", "LDAP://DC01.Corp.Example/CN=Root%20CA?certificateRevocationList", "http://example.com:80/a/../b.crl",
			"http://example.com./crl", "http://User@Example.com/crl", "http://[2001:DB8::1]/crl", "urn:X-crl:1", "http://example.com/%7Ecrl", "http://example.com/crl?", "http://example.com/crl#", "//example.com/crl",
		]).prop_map(|s| s.to_string()),
	]
}

pub fn crl_dps(min: usize) -> impl Strategy<Value = Vec<Vec<String>>> {
	vec(vec(uri(), 1..3), min..3)
}

/// Small well-formed DER values built with the harness encoder.
pub fn der_value() -> BoxedStrategy<Vec<u8>> {
	let leaf = prop_oneof![
		vec(any::<u8>(), 0..40).prop_map(|b| crate::der::enc_tlv(0x04, &b)),
		any::<u64>().prop_map(crate::der::enc_uint),
		text_for(StrKind::Utf8, 10).prop_map(|s| crate::der::enc_tlv(0x0c, s.as_bytes())),
		Just(vec![0x05, 0x00]),
		any::<bool>().prop_map(|b| vec![0x01, 0x01, if b { 0xff } else { 0x00 }]),
		moderate_oid().prop_map(|o| crate::der::enc_oid(&o)),
		vec(any::<u8>(), 120..300).prop_map(|b| crate::der::enc_tlv(0x04, &b)),
		// long values whose last octets are zero (and values that are nothing but zeros)
		(vec(any::<u8>(), 120..300), 1usize..6).prop_map(|(mut b, z)| {
			let n = b.len();
			for x in &mut b[n - z..] {
				*x = 0;
			}
			crate::der::enc_tlv(0x04, &b)
		}),
		(0usize..300).prop_map(|n| crate::der::enc_tlv(0x04, &vec![0u8; n])),
	];
	leaf.prop_recursive(2, 8, 4, |inner| {
		prop_oneof![
			vec(inner.clone(), 0..4).prop_map(|v| crate::der::enc_seq(&v)),
			vec(inner, 0..4).prop_map(|v| crate::der::enc_set_of(&v)),
		]
	})
	.boxed()
}

/// Custom extensions whose OID is one rcgen also writes from a typed field, with content that is
/// valid for that extension (a registeredID SAN, which `SanType` cannot express; a key usage; an
/// extended key usage). Callers use these for what the typed API lacks.
pub fn colliding_custom_ext() -> impl Strategy<Value = CustomExtSpec> {
	use crate::der::{enc_oid, enc_seq, enc_tlv};
	let san = enc_seq(&[enc_tlv(0x88, &[0x2a, 0x03, 0x04])]);
	let ku = vec![0x03, 0x02, 0x05, 0xa0];
	let eku = enc_seq(&[enc_oid(&[1, 3, 6, 1, 4, 1, 55555, 9])]);
	(select(vec![(vec![2u64, 5, 29, 17], san), (vec![2, 5, 29, 15], ku), (vec![2, 5, 29, 37], eku)]), any::<bool>())
		.prop_map(|((oid, content), critical)| CustomExtSpec { oid, critical, content: Hex(content), acme: false })
}

pub fn custom_ext(moderate: bool) -> impl Strategy<Value = CustomExtSpec> {
	prop_oneof![
		8 => (custom_ext_oid(moderate), any::<bool>(), prop_oneof![8 => der_value(), 2 => vec(any::<u8>(), 0..24).boxed(), 1 => (0usize..40).prop_map(|n| vec![0u8; n]).boxed()])
			.prop_map(|(oid, critical, content)| CustomExtSpec { oid, critical, content: Hex(content), acme: false }),
		1 => (vec(any::<u8>(), 32), any::<bool>()).prop_map(|(d, critical)| CustomExtSpec {
			oid: vec![1, 3, 6, 1, 5, 5, 7, 1, 31],
			critical,
			content: Hex(d),
			acme: true,
		}),
	]
}

pub fn kid() -> BoxedStrategy<KidSpec> {
	if cfg!(feature = "crypto") {
		prop_oneof![
			3 => Just(KidSpec::Sha256),
			2 => Just(KidSpec::Sha384),
			2 => Just(KidSpec::Sha512),
			3 => vec(any::<u8>(), 0..33).prop_map(|b| KidSpec::Pre(Hex(b))),
		]
		.boxed()
	} else {
		vec(any::<u8>(), 0..33).prop_map(|b| KidSpec::Pre(Hex(b))).boxed()
	}
}

/// Serial / CRL-number byte strings with every leading-byte pattern.
pub fn int_bytes(max: usize) -> impl Strategy<Value = Hex> {
	(
		select(vec![0u8, 1, 2]),                                      // number of leading zero bytes
		prop_oneof![Just(0x00u8), Just(0x01), Just(0x7f), Just(0x80), Just(0xff), any::<u8>()], // first value byte
		vec(any::<u8>(), 0..max),
		0u8..10,
	)
		.prop_map(move |(zeros, first, mut rest, mode)| {
			let mut v = vec![0u8; zeros as usize];
			match mode {
				0 => {}, // only zeros (or empty)
				_ => {
					v.push(first);
					rest.truncate(max.saturating_sub(v.len()));
					v.extend(rest);
				},
			}
			Hex(v)
		})
}

/// Explicit serials a profile-conformant caller supplies: positive, non-zero, at most 20 octets
/// once encoded as an INTEGER.
pub fn conformant_serial() -> impl Strategy<Value = Hex> {
	(1u8..=0x7f, vec(any::<u8>(), 0..20)).prop_map(|(first, rest)| {
		let mut v = vec![first];
		v.extend(rest);
		Hex(v)
	})
}

pub fn boundary_instant() -> impl Strategy<Value = i64> {
	let near = |c: i64| (c - 2 * 86400..c + 2 * 86400).boxed();
	prop_oneof![
		2 => (Y0_START..Y0_START + 2 * 86400),
		3 => near(Y1950),
		3 => near(Y2050),
		2 => (Y9999_END - 2 * 86400..=Y9999_END),
		1 => near(0),
		1 => select(vec![Y0_START, Y1950 - 1, Y1950, Y2050 - 1, Y2050, Y9999_END, 0, 951782400 /* 2000-02-29 */]),
		// calendar and machine-integer landmarks: 2^31 and 2^32 seconds, century leap rules, ends of
		// months, the last day of year 9999, the year 1000/10000 digit-count changes, -1 s
		1 => (select(vec![
			2147483647i64, 2147483648, 4294967295, 4294967296, -1, -2147483648, -2147483649,
			-2203891200 /* 1900-03-01 */, 4107542400 /* 2100-03-01 */, 4107456000 /* 2100-02-28 */, 951868800 /* 2000-03-01 */,
			-30610224000 /* 1000-01-01 */, 253402214400 /* 9999-12-31 */, 253370764800 /* 9999-01-01 */,
			1709164800 /* 2024-02-29 */, 1735689599 /* 2024-12-31T23:59:59 */, 1483228800 /* 2017-01-01, after a leap second */,
			-62135596800 /* 0001-01-01 */, -62162035200 /* 0000-03-01 */, -62162121600 /* 0000-02-29 */,
		]), -2i64..=2).prop_map(|(c, d)| (c + d).clamp(Y0_START, Y9999_END)),
		6 => (Y0_START..=Y9999_END),
		3 => (Y1950..Y2050),
	]
}

pub fn nanos() -> impl Strategy<Value = u32> {
	prop_oneof![
		3 => Just(0u32),
		1 => Just(1u32),
		1 => Just(999_999_999u32),
		1 => Just(500_000_000u32),
		2 => 0u32..1_000_000_000,
	]
}

pub fn offset() -> impl Strategy<Value = i32> {
	prop_oneof![
		4 => Just(0i32),
		2 => select(vec![3600, -3600, 7200, -7200, 19800, -16200, 45 * 60 + 5 * 3600, 14 * 3600, -12 * 3600]),
		1 => select(vec![MAX_OFFSET, -MAX_OFFSET, 1, -1, 59, -59, 86399, -86399, 86400, -86400]),
		2 => -MAX_OFFSET..=MAX_OFFSET,
	]
}

/// Times inside the domain of C09: UTC year 0..=9999 and a local date-time the `time` type
/// can represent. Offsets that would push the local year past 9999 are clamped (construction,
/// not rejection).
pub fn time_valid() -> impl Strategy<Value = TimeSpec> {
	(boundary_instant(), nanos(), offset()).prop_map(|(unix, nanos, offset)| clamp_time(unix, nanos, offset))
}

pub fn clamp_time(unix: i64, nanos: u32, offset: i32) -> TimeSpec {
	let room = Y9999_END - unix;
	let offset = if (offset as i64) > room { room as i32 } else { offset };
	TimeSpec { unix, nanos, offset }
}

/// A plain time: whole seconds, UTC, well inside both forms' ranges (for properties whose
/// subject is not time encoding).
pub fn time_plain() -> impl Strategy<Value = TimeSpec> {
	prop_oneof![
		(0i64..Y2050 - 1).prop_map(|unix| TimeSpec { unix, nanos: 0, offset: 0 }),
		(Y2050..Y2050 + 1000 * 365 * 86400).prop_map(|unix| TimeSpec { unix, nanos: 0, offset: 0 }),
	]
}

pub fn key_alg() -> impl Strategy<Value = KeyAlg> {
	let mut w: Vec<(u32, KeyAlg)> = vec![
		(30, KeyAlg::P256),
		(20, KeyAlg::P384),
		(30, KeyAlg::Ed25519),
		(5, KeyAlg::Rsa2048),
		(1, KeyAlg::Rsa3072),
		(1, KeyAlg::Rsa4096),
	];
	if keys::available_algs().contains(&KeyAlg::P521) {
		w.push((12, KeyAlg::P521));
	}
	if keys::available_algs().contains(&KeyAlg::Rsa6144) {
		w.push((1, KeyAlg::Rsa6144));
	}
	let total: u32 = w.iter().map(|x| x.0).sum();
	(0..total).prop_map(move |mut r| {
		for (wt, a) in &w {
			if r < *wt {
				return *a;
			}
			r -= wt;
		}
		KeyAlg::P256
	})
}

pub fn rsa_hash() -> impl Strategy<Value = RsaHash> {
	select(vec![RsaHash::Sha256, RsaHash::Sha384, RsaHash::Sha512])
}

pub fn key_spec() -> impl Strategy<Value = KeySpec> {
	(key_alg(), any::<u8>(), rsa_hash(), prop::bool::weighted(0.15)).prop_map(|(alg, idx, rsa_hash, remote)| KeySpec {
		alg,
		idx,
		rsa_hash,
		remote: remote || !cfg!(feature = "crypto"),
	})
}

/// A cheap signer for properties whose subject is not the signature.
pub fn cheap_key() -> impl Strategy<Value = KeySpec> {
	(prop_oneof![Just(KeyAlg::Ed25519), Just(KeyAlg::P256)], any::<u8>()).prop_map(|(alg, idx)| KeySpec {
		alg,
		idx,
		rsa_hash: RsaHash::Sha256,
		remote: !cfg!(feature = "crypto"),
	})
}

#[derive(Clone, Copy, Debug)]
pub struct CertGenOpts {
	/// arcs below 2^32 only
	pub moderate_oids: bool,
	/// allow DirectoryName subtrees
	pub dirname_subtrees: bool,
	/// time generator restricted to plain UTC whole seconds
	pub plain_times: bool,
	/// only standard EKUs
	pub standard_ekus: bool,
	/// allow two DN entries with the same OID
	pub same_oid_dn: bool,
	/// explicit serials are positive, non-zero, <= 20 octets; no empty DP lists
	pub conformant: bool,
}

impl CertGenOpts {
	pub const FULL: CertGenOpts = CertGenOpts {
		moderate_oids: false,
		dirname_subtrees: true,
		plain_times: false,
		standard_ekus: false,
		same_oid_dn: true,
		conformant: false,
	};
}

/// Sparsity mode names, reported in the evidence.
pub fn sparsity_name(mode: u8) -> &'static str {
	match mode {
		0 => "nothing-set",
		1 => "exactly-one-field",
		2 => "random-subset",
		_ => "everything-set",
	}
}

/// A certificate spec in which every extension-bearing field is set, plus a mask
/// choosing which of the eight are kept.
pub fn cert_spec(o: CertGenOpts) -> BoxedStrategy<CertSpec> {
	let times = if o.plain_times {
		(time_plain(), time_plain()).boxed()
	} else {
		(time_valid(), time_valid()).boxed()
	};
	let auto_serial = if cfg!(feature = "crypto") { 2 } else { 0 };
	let serial = if o.conformant {
		prop_oneof![auto_serial => Just(None), 3 => conformant_serial().prop_map(Some)].boxed()
	} else {
		prop_oneof![auto_serial => Just(None), 3 => int_bytes(24).prop_map(Some)].boxed()
	};
	let mask = prop_oneof![
		1 => Just(0u8),
		4 => (0u8..8).prop_map(|k| 1u8 << k),
		6 => any::<u8>(),
		2 => Just(0xffu8),
	];
	(
		(times, serial, dn(6, o.moderate_oids, o.same_oid_dn), kid(), mask),
		(
			vec(san(o.moderate_oids), 1..5),
			is_ca_set(),
			key_usages(1),
			vec(eku(o.moderate_oids, o.standard_ekus), 1..4),
			nc_nonempty(o.dirname_subtrees),
			crl_dps(1),
			if o.conformant || o.moderate_oids {
				vec(custom_ext(o.moderate_oids), 1..3).boxed()
			} else {
				(vec(custom_ext(false), 1..3), prop::option::weighted(0.08, colliding_custom_ext()))
					.prop_map(|(mut v, c)| {
						v.extend(c);
						v
					})
					.boxed()
			},
		),
	)
		.prop_map(|(((not_before, not_after), serial, dn, kid, mask), (mut sans, is_ca, key_usages, ekus, nc, crl_dps, custom))| {
			let keep = |bit: u8| mask & (1 << bit) != 0;
			// now and then two entries that a careless comparison would take for one: the same text in
			// another letter case, the same text in another name form, an exact repeat
			if not_before.nanos % 16 == 2 || not_after.nanos % 16 == 3 {
				let twin = sans.iter().find_map(|s| match s {
					SanSpec::Dns(t) | SanSpec::Rfc822(t) | SanSpec::Uri(t) if !t.is_empty() => Some(t.clone()),
					_ => None,
				});
				if let Some(t) = twin {
					let flipped: String = t.chars().map(|c| if c.is_ascii_lowercase() { c.to_ascii_uppercase() } else { c.to_ascii_lowercase() }).collect();
					sans.push(SanSpec::Dns(flipped.clone()));
					sans.push(SanSpec::Rfc822(t.clone()));
					sans.push(SanSpec::Uri(flipped));
					sans.push(SanSpec::Dns(t));
				}
			}
			// now and then a list long enough to push enclosing lengths over 127 / 255 / 65535 octets
			if not_before.nanos % 64 == 1 && !sans.is_empty() {
				let n = [40usize, 130, 300][(not_before.unix.rem_euclid(3)) as usize];
				let base = sans.clone();
				while sans.len() < n {
					sans.extend(base.iter().cloned());
				}
			}
			CertSpec {
				not_before,
				not_after,
				serial,
				sans: if keep(0) { sans } else { vec![] },
				dn,
				is_ca: if keep(1) { is_ca } else { IsCaSpec::NoCa },
				key_usages: if keep(2) { key_usages } else { vec![] },
				ekus: if keep(3) { ekus } else { vec![] },
				name_constraints: if keep(4) { Some(nc) } else { None },
				crl_dps: if keep(5) { crl_dps } else { vec![] },
				custom_exts: if keep(6) { custom } else { vec![] },
				use_aki: keep(7),
				kid,
			}
		})
		.boxed()
}

pub fn sparsity_class(s: &CertSpec) -> &'static str {
	match s.ext_fields_set().len() {
		0 => "nothing-set",
		1 => "exactly-one-field",
		8 => "everything-set",
		_ => "random-subset",
	}
}

pub fn reason() -> impl Strategy<Value = Option<ReasonSpec>> {
	prop_oneof![2 => Just(None), 5 => select(ReasonSpec::ALL.to_vec()).prop_map(Some)]
}

pub fn revoked(plain_times: bool) -> BoxedStrategy<RevokedSpec> {
	let t = if plain_times { time_plain().boxed() } else { time_valid().boxed() };
	let inv = if plain_times { time_plain().boxed() } else { time_valid().boxed() };
	(int_bytes(21), t, reason(), prop::option::weighted(0.5, inv))
		.prop_map(|(serial, revocation_time, reason, invalidity_date)| RevokedSpec {
			serial,
			revocation_time,
			reason,
			invalidity_date,
		})
		.boxed()
}

pub fn idp() -> impl Strategy<Value = Option<IdpSpec>> {
	prop::option::weighted(
		0.5,
		(vec(uri(), 1..3), prop_oneof![Just(None), Just(Some(ScopeSpec::User)), Just(Some(ScopeSpec::Ca))])
			.prop_map(|(uris, scope)| IdpSpec { uris, scope }),
	)
}

/// CRL specs whose thisUpdate < nextUpdate by at least one encoded second.
pub fn crl_spec(plain_times: bool) -> BoxedStrategy<CrlSpec> {
	let t = if plain_times { time_plain().boxed() } else { time_valid().boxed() };
	let entries = prop_oneof![
		120 => vec(revoked(plain_times), 0..6).boxed(),
		// enough entries for two- and three-octet lengths around the entry list
		3 => vec(revoked(plain_times), 120..140).boxed(),
		1 => vec(revoked(plain_times), 1500..1700).boxed(),
	];
	(t, 1i64..100_000_000, nanos(), offset(), int_bytes(21), idp(), entries, kid())
		.prop_map(|(this_update, delta, n2, off2, crl_number, idp, mut revoked, kid)| {
			// a certificateHold entry followed by the removeFromCRL entry of the same serial (a delta-CRL
			// idiom); now and then the list is nothing but such pairs
			if n2 % 8 == 3 && !revoked.is_empty() && revoked.len() < 8 {
				let only_pairs = n2 % 16 == 3;
				let base: Vec<RevokedSpec> = if only_pairs { revoked.drain(..).take(2).collect() } else { revoked.iter().take(1).cloned().collect() };
				for mut e in base {
					let mut rel = e.clone();
					e.reason = Some(ReasonSpec::CertificateHold);
					rel.reason = Some(ReasonSpec::RemoveFromCrl);
					revoked.push(e);
					revoked.push(rel);
				}
			}
			let next_unix = (this_update.unix + delta).min(Y9999_END);
			let mut this_update = this_update;
			if next_unix <= this_update.unix {
				this_update = clamp_time(next_unix - 1, this_update.nanos, this_update.offset);
			}
			let next_update = clamp_time(next_unix, n2, off2);
			// duplicate a serial now and then
			if revoked.len() >= 2 && delta % 7 == 0 {
				revoked[1].serial = revoked[0].serial.clone();
			}
			CrlSpec { this_update, next_update, crl_number, idp, revoked, kid }
		})
		.boxed()
}

pub fn attr_spec() -> impl Strategy<Value = AttrSpec> {
	(any::<u8>(), prop_oneof![
		4 => vec(der_value(), 1..3).prop_map(|v| crate::der::enc_set_of(&v)),
		1 => vec(any::<u8>(), 0..12).prop_map(|b| crate::der::enc_tlv(0x31, &crate::der::enc_tlv(0x04, &b))),
	])
		.prop_map(|(oid_idx, values)| AttrSpec { oid_idx, values: Hex(values) })
}

/// Specs restricted to what a CSR can express (everything else at its default), with the
/// same sparsity structure over the four CSR-expressible extension fields.
pub fn csr_spec(moderate: bool, standard_ekus: bool, with_custom: bool) -> BoxedStrategy<CertSpec> {
	let mask = prop_oneof![
		1 => Just(0u8),
		4 => (0u8..4).prop_map(|k| 1u8 << k),
		5 => 0u8..16,
		2 => Just(0x0fu8),
	];
	(
		dn(6, moderate, !moderate),
		vec(san(moderate), 1..5),
		key_usages(1),
		vec(eku(moderate, standard_ekus), 1..4),
		(vec(custom_ext(moderate), 1..3), if moderate { Just(None).boxed() } else { prop::option::weighted(0.08, colliding_custom_ext()).boxed() }).prop_map(|(mut v, c)| {
			v.extend(c);
			v
		}),
		mask,
		kid(),
	)
		.prop_map(move |(dn, mut sans, ku, ekus, custom, mask, kid)| {
			let keep = |b: u8| mask & (1 << b) != 0;
			// near-duplicates and exact repeats (see cert_spec)
			if ku.len() % 4 == 1 && sans.len() % 2 == 0 {
				let twin = sans.iter().find_map(|s| match s {
					SanSpec::Dns(t) | SanSpec::Rfc822(t) | SanSpec::Uri(t) if !t.is_empty() => Some(t.clone()),
					_ => None,
				});
				if let Some(t) = twin {
					let flipped: String = t.chars().map(|c| if c.is_ascii_lowercase() { c.to_ascii_uppercase() } else { c.to_ascii_lowercase() }).collect();
					sans.push(SanSpec::Dns(flipped));
					sans.push(SanSpec::Dns(t.clone()));
					sans.push(SanSpec::Rfc822(t));
				}
				let first = sans[0].clone();
				sans.push(first);
			}
			let mut s = CertSpec::minimal();
			s.serial = None; // a CSR cannot carry one
			s.dn = dn;
			s.kid = kid;
			s.sans = if keep(0) { sans } else { vec![] };
			s.key_usages = if keep(1) { ku } else { vec![] };
			s.ekus = if keep(2) { ekus } else { vec![] };
			s.custom_exts = if keep(3) && with_custom { custom } else { vec![] };
			s
		})
		.boxed()
}
