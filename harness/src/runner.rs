//! Sharded proptest driver: counters, samples, shrinking, replay files, evidence.
//!
//! A property is a list of `Sub` checks. Each sub is either a proptest campaign (generated
//! cases, shrunk on failure) or an exhaustive sweep of a finite sub-space. A run is a pure
//! function of (tree, VERIF_SEED, tier): budgets are case counts, shards get fixed seeds.

use std::collections::{BTreeMap, HashSet};
use std::hash::{Hash, Hasher};
use std::panic::{catch_unwind, AssertUnwindSafe};
use std::sync::atomic::{AtomicBool, AtomicU64, AtomicUsize, Ordering};
use std::sync::{Arc, Mutex};
use std::time::Instant;

use proptest::strategy::{BoxedStrategy, Strategy};
use proptest::test_runner::{Config, RngAlgorithm, TestCaseError, TestError, TestRng, TestRunner};
use serde::de::DeserializeOwned;
use serde::Serialize;
use serde_json::{json, Value};

#[derive(Clone, Copy, Debug, PartialEq, Eq)]
pub enum Tier {
	Quick,
	Thorough,
}

#[derive(Clone, Debug)]
pub struct RunCfg {
	pub tier: Tier,
	pub seed: u64,
	pub shards: usize,
	/// multiply case budgets (development aid; 1.0 in registered commands)
	pub scale: f64,
}

impl RunCfg {
	pub fn pick(&self, quick: u64, thorough: u64) -> u64 {
		let n = match self.tier {
			Tier::Quick => quick,
			Tier::Thorough => thorough,
		};
		((n as f64) * self.scale).ceil() as u64
	}
}

/// Filled in by the test function for each case.
#[derive(Default, Debug)]
pub struct CaseInfo {
	pub nontrivial: bool,
	pub classes: Vec<String>,
	/// number of individual evaluations this case stands for (batched sweeps); 0 means 1
	pub weight: u64,
	/// number of distinct non-trivial evaluations inside a batched case (added to the count)
	pub nontrivial_weight: u64,
}

impl CaseInfo {
	pub fn class(&mut self, s: impl Into<String>) {
		self.classes.push(s.into());
	}
}

#[derive(Default, Debug)]
pub struct Stats {
	pub evaluations: u64,
	pub nontrivial: HashSet<u64>,
	pub classes: BTreeMap<String, u64>,
	pub samples: Vec<Value>,
	pub class_samples: BTreeMap<String, Value>,
	pub exhaustive: bool,
	pub notes: Vec<String>,
	/// distinct non-trivial evaluations counted inside batched cases
	pub extra_nontrivial: u64,
}

#[derive(Debug, Clone)]
pub struct Failure {
	pub reason: String,
	pub case: Value,
}

pub struct SubResult {
	pub stats: Stats,
	pub failure: Option<Failure>,
	/// `KNOWN-FINDING: ...` lines to print (exit code stays 0)
	pub known_lines: Vec<String>,
	/// the check could not reach a verdict (exit 2)
	pub inconclusive: Option<String>,
}

pub struct Sub {
	pub name: &'static str,
	pub run: Box<dyn Fn(&RunCfg) -> SubResult + Send + Sync>,
	pub replay: Box<dyn Fn(&Value) -> Result<Vec<String>, String> + Send + Sync>,
}

thread_local! {
	static LAST_PANIC: std::cell::RefCell<Option<String>> = std::cell::RefCell::new(None);
}

/// The most recent panic of any thread (for reporting a crash of the harness itself).
pub static LAST_PANIC_ANYWHERE: Mutex<Vec<String>> = Mutex::new(Vec::new());

pub fn install_quiet_panic_hook() {
	std::panic::set_hook(Box::new(|info| {
		let msg = if let Some(s) = info.payload().downcast_ref::<&str>() {
			s.to_string()
		} else if let Some(s) = info.payload().downcast_ref::<String>() {
			s.clone()
		} else {
			"<non-string panic payload>".to_string()
		};
		let loc = info
			.location()
			.map(|l| format!("{}:{}", l.file(), l.line()))
			.unwrap_or_default();
		if let Ok(mut g) = LAST_PANIC_ANYWHERE.try_lock() {
			if g.len() > 64 {
				g.remove(0);
			}
			g.push(format!("{msg} @ {loc}"));
		}
		LAST_PANIC.with(|p| *p.borrow_mut() = Some(format!("{msg} @ {loc}")));
	}));
}

/// Runs `f`, converting a panic into `Err("panic: <message> @ <location>")`.
pub fn no_panic<T>(f: impl FnOnce() -> T) -> Result<T, String> {
	LAST_PANIC.with(|p| *p.borrow_mut() = None);
	match catch_unwind(AssertUnwindSafe(f)) {
		Ok(v) => Ok(v),
		Err(_) => Err(format!(
			"panic: {}",
			LAST_PANIC.with(|p| p.borrow_mut().take()).unwrap_or_else(|| "<unknown>".into())
		)),
	}
}

fn splitmix(mut x: u64) -> u64 {
	x = x.wrapping_add(0x9e3779b97f4a7c15);
	let mut z = x;
	z = (z ^ (z >> 30)).wrapping_mul(0xbf58476d1ce4e5b9);
	z = (z ^ (z >> 27)).wrapping_mul(0x94d049bb133111eb);
	z ^ (z >> 31)
}

fn seed_bytes(seed: u64, name: &str, shard: usize) -> [u8; 32] {
	let mut h = std::collections::hash_map::DefaultHasher::new();
	name.hash(&mut h);
	let mut x = splitmix(seed ^ h.finish().rotate_left(17) ^ ((shard as u64) << 48));
	let mut out = [0u8; 32];
	for c in out.chunks_mut(8) {
		x = splitmix(x);
		c.copy_from_slice(&x.to_le_bytes());
	}
	out
}

pub fn hash_json(v: &Value) -> u64 {
	let mut h = std::collections::hash_map::DefaultHasher::new();
	v.to_string().hash(&mut h);
	h.finish()
}

struct Shared {
	stats: Mutex<Stats>,
	failed_shard: AtomicUsize,
	counting: AtomicBool,
	evals: AtomicU64,
}

const MAX_SAMPLES: usize = 4;
const MAX_CLASS_SAMPLES: usize = 24;

fn record(shared: &Shared, case_json: impl FnOnce() -> Value, info: &CaseInfo) {
	shared.evals.fetch_add(info.weight.max(1), Ordering::Relaxed);
	let mut st = shared.stats.lock().unwrap();
	st.extra_nontrivial += info.nontrivial_weight;
	for c in &info.classes {
		*st.classes.entry(c.clone()).or_insert(0) += 1;
	}
	let need_class_sample = st.class_samples.len() < MAX_CLASS_SAMPLES
		&& info.classes.iter().any(|c| !st.class_samples.contains_key(c));
	if info.nontrivial || need_class_sample {
		let j = case_json();
		if info.nontrivial {
			st.nontrivial.insert(hash_json(&j));
			if st.samples.len() < MAX_SAMPLES {
				st.samples.push(j.clone());
			}
		}
		if need_class_sample {
			for c in &info.classes {
				if st.class_samples.len() < MAX_CLASS_SAMPLES && !st.class_samples.contains_key(c) {
					st.class_samples.insert(c.clone(), j.clone());
				}
			}
		}
	}
}

pub type TestFn<V> = Arc<dyn Fn(&V, &mut CaseInfo) -> Result<(), String> + Send + Sync>;

fn replay_fn<V: DeserializeOwned + 'static>(test: TestFn<V>) -> Box<dyn Fn(&Value) -> Result<Vec<String>, String> + Send + Sync> {
	Box::new(move |j: &Value| {
		let v: V = serde_json::from_value(j.clone()).map_err(|e| format!("replay file does not fit this check: {e}"))?;
		let mut info = CaseInfo::default();
		match no_panic(|| test(&v, &mut info)) {
			Ok(r) => r.map(|()| info.classes),
			Err(p) => Err(p),
		}
	})
}

/// A proptest campaign of `quick`/`thorough` cases over `strategy`, sharded over threads.
pub fn prop_sub<V, SF, F>(name: &'static str, quick: u64, thorough: u64, strategy: SF, test: F) -> Sub
where
	V: Serialize + DeserializeOwned + std::fmt::Debug + Clone + 'static,
	SF: Fn() -> BoxedStrategy<V> + Send + Sync + 'static,
	F: Fn(&V, &mut CaseInfo) -> Result<(), String> + Send + Sync + 'static,
{
	let test: TestFn<V> = Arc::new(test);
	let t2 = test.clone();
	let strategy = Arc::new(strategy);
	Sub {
		name,
		run: Box::new(move |cfg: &RunCfg| run_prop(cfg, name, cfg.pick(quick, thorough), &*strategy, t2.clone())),
		replay: replay_fn(test),
	}
}

fn run_prop<V, SF>(cfg: &RunCfg, name: &str, cases: u64, strategy: &SF, test: TestFn<V>) -> SubResult
where
	V: Serialize + std::fmt::Debug + Clone + 'static,
	SF: Fn() -> BoxedStrategy<V> + Send + Sync,
{
	let shards = cfg.shards.max(1).min(cases.max(1) as usize);
	let shared = Arc::new(Shared {
		stats: Mutex::new(Stats::default()),
		failed_shard: AtomicUsize::new(usize::MAX),
		counting: AtomicBool::new(true),
		evals: AtomicU64::new(0),
	});
	let failures: Mutex<Vec<(usize, Failure)>> = Mutex::new(Vec::new());
	let aborted: Mutex<Option<String>> = Mutex::new(None);
	std::thread::scope(|scope| {
		for shard in 0..shards {
			let shared = shared.clone();
			let test = test.clone();
			let failures = &failures;
			let aborted = &aborted;
			let n = cases / shards as u64 + if (shard as u64) < cases % shards as u64 { 1 } else { 0 };
			let seed = seed_bytes(cfg.seed, name, shard);
			scope.spawn(move || {
				if n == 0 {
					return;
				}
				let config = Config {
					cases: n as u32,
					failure_persistence: None,
					max_shrink_iters: 4000,
					max_global_rejects: 1 << 20,
					max_local_rejects: 1 << 20,
					..Config::default()
				};
				let mut runner = TestRunner::new_with_rng(config, TestRng::from_seed(RngAlgorithm::ChaCha, &seed));
				let strat = strategy();
				let res = runner.run(&strat, |v: V| {
					let f = shared.failed_shard.load(Ordering::SeqCst);
					if f != usize::MAX && f != shard {
						return Ok(()); // another shard is shrinking a failure; drain quickly
					}
					let mut info = CaseInfo::default();
					let r = match no_panic(|| test(&v, &mut info)) {
						Ok(r) => r,
						Err(p) => Err(p),
					};
					if f == usize::MAX {
						record(&shared, || serde_json::to_value(&v).unwrap_or(Value::Null), &info);
					}
					match r {
						Ok(()) => Ok(()),
						Err(reason) => {
							let won = shared
								.failed_shard
								.compare_exchange(usize::MAX, shard, Ordering::SeqCst, Ordering::SeqCst)
								.is_ok() || shared.failed_shard.load(Ordering::SeqCst) == shard;
							if won {
								shared.counting.store(false, Ordering::SeqCst);
								Err(TestCaseError::fail(reason))
							} else {
								Ok(())
							}
						},
					}
				});
				match res {
					Ok(()) => {},
					Err(TestError::Fail(reason, v)) => {
						failures.lock().unwrap().push((
							shard,
							Failure {
								reason: reason.message().to_string(),
								case: serde_json::to_value(&v).unwrap_or(Value::Null),
							},
						));
					},
					Err(TestError::Abort(reason)) => {
						*aborted.lock().unwrap() = Some(format!("proptest aborted: {}", reason.message()));
					},
				}
			});
		}
	});
	let mut stats = std::mem::take(&mut *shared.stats.lock().unwrap());
	stats.evaluations = shared.evals.load(Ordering::SeqCst);
	let mut fl = failures.into_inner().unwrap();
	fl.sort_by_key(|x| x.0);
	SubResult {
		stats,
		failure: fl.into_iter().next().map(|x| x.1),
		known_lines: vec![],
		inconclusive: aborted.into_inner().unwrap(),
	}
}

/// Exhaustive sweep over a finite, explicitly enumerated sub-space. `cases(tier)` returns
/// the complete list for that tier; `exhaustive` is recorded in the evidence.
pub fn sweep_sub<V, CF, F>(name: &'static str, cases: CF, test: F) -> Sub
where
	V: Serialize + DeserializeOwned + std::fmt::Debug + Clone + Send + Sync + 'static,
	CF: Fn(&RunCfg) -> Vec<V> + Send + Sync + 'static,
	F: Fn(&V, &mut CaseInfo) -> Result<(), String> + Send + Sync + 'static,
{
	let test: TestFn<V> = Arc::new(test);
	let t2 = test.clone();
	Sub {
		name,
		run: Box::new(move |cfg: &RunCfg| {
			let all = cases(cfg);
			let shared = Shared {
				stats: Mutex::new(Stats::default()),
				failed_shard: AtomicUsize::new(usize::MAX),
				counting: AtomicBool::new(true),
				evals: AtomicU64::new(0),
			};
			let first_fail: Mutex<Option<(usize, Failure)>> = Mutex::new(None);
			let next = AtomicUsize::new(0);
			std::thread::scope(|scope| {
				for _ in 0..cfg.shards.max(1) {
					scope.spawn(|| loop {
						let i = next.fetch_add(1, Ordering::SeqCst);
						if i >= all.len() || shared.failed_shard.load(Ordering::SeqCst) != usize::MAX {
							break;
						}
						let v = &all[i];
						let mut info = CaseInfo::default();
						let r = match no_panic(|| t2(v, &mut info)) {
							Ok(r) => r,
							Err(p) => Err(p),
						};
						record(&shared, || serde_json::to_value(v).unwrap_or(Value::Null), &info);
						if let Err(reason) = r {
							shared.failed_shard.store(0, Ordering::SeqCst);
							let mut ff = first_fail.lock().unwrap();
							if ff.as_ref().map_or(true, |(j, _)| i < *j) {
								*ff = Some((i, Failure { reason, case: serde_json::to_value(v).unwrap_or(Value::Null) }));
							}
						}
					});
				}
			});
			let mut stats = std::mem::take(&mut *shared.stats.lock().unwrap());
			stats.evaluations = shared.evals.load(Ordering::SeqCst);
			let failure = first_fail.into_inner().unwrap().map(|x| x.1);
			stats.exhaustive = failure.is_none();
			SubResult { stats, failure, known_lines: vec![], inconclusive: None }
		}),
		replay: replay_fn(test),
	}
}

pub struct PropertyDef {
	pub id: &'static str,
	pub rule: &'static str,
	pub assumptions: Vec<&'static str>,
	pub subs: Vec<Sub>,
}

pub struct RunOutcome {
	pub violations: u64,
	pub inconclusive: bool,
}

fn out_dir() -> String {
	format!("{}/out", crate::keys::verif_root())
}

pub fn variant_name() -> &'static str {
	if cfg!(feature = "both_be") {
		"both"
	} else if cfg!(feature = "aws_be") {
		"aws"
	} else if cfg!(feature = "nocrypto_be") {
		"nocrypto"
	} else {
		"ring"
	}
}

/// Runs every sub of a property, prints VIOLATION / KNOWN-FINDING lines, and returns the
/// evidence fragment (`coverage` object and friends) for this variant.
pub fn run_property(def: &PropertyDef, cfg: &RunCfg, only_sub: Option<&str>) -> (RunOutcome, Value) {
	let start = Instant::now();
	let mut violations = 0u64;
	let mut inconclusive = false;
	let mut total_evals = 0u64;
	let mut total_nt = 0u64;
	let mut samples: Vec<Value> = Vec::new();
	let mut per_sub = serde_json::Map::new();
	let mut exhaustive_subspaces: Vec<String> = Vec::new();
	let mut all_exhaustive = true;
	let mut printed_known: HashSet<String> = HashSet::new();
	for sub in &def.subs {
		if let Some(o) = only_sub {
			if o != sub.name {
				continue;
			}
		}
		let t0 = Instant::now();
		let res = (sub.run)(cfg);
		let dt = t0.elapsed().as_secs_f64();
		for l in &res.known_lines {
			println!("{l}");
		}
		// classes named `known:<CLASS>` mark cases that hit a recorded known finding
		for (k, n) in &res.stats.classes {
			if let Some(class) = k.strip_prefix("known:") {
				if let Some(line) = crate::findings::known_line(class) {
					if printed_known.insert(line.clone()) {
						println!("{line}");
					}
					eprintln!("    ({n} case(s) of sub {} hit known finding {class})", sub.name);
				}
			}
		}
		if let Some(why) = &res.inconclusive {
			eprintln!("INCONCLUSIVE property={} sub={} {}", def.id, sub.name, why);
			inconclusive = true;
		}
		// a failure of the harness itself (its own panic, an INTERNAL: self-check) is never a violation
		let internal = res.failure.as_ref().map_or(false, |f| {
			f.reason.starts_with("INTERNAL") || (f.reason.starts_with("panic:") && f.reason.contains(" @ src/"))
		});
		if internal {
			let f = res.failure.as_ref().unwrap();
			eprintln!("INCONCLUSIVE property={} sub={} harness self-check failed: {}", def.id, sub.name, f.reason);
			eprintln!("--- case: {}", f.case);
			inconclusive = true;
		} else if let Some(f) = &res.failure {
			violations += 1;
			let dir = format!("{}/replays", out_dir());
			let _ = std::fs::create_dir_all(&dir);
			let path = format!("{dir}/{}-{}-{}-{}.json", def.id, variant_name(), sub.name, cfg.seed);
			let doc = json!({
				"property": def.id,
				"sub": sub.name,
				"variant": variant_name(),
				"seed": cfg.seed,
				"reason": f.reason,
				"case": f.case,
			});
			std::fs::write(&path, serde_json::to_string_pretty(&doc).unwrap()).expect("write replay file");
			eprintln!("--- {} / {} failed: {}", def.id, sub.name, f.reason);
			eprintln!("--- minimal case: {}", f.case);
			println!("VIOLATION property={} replay={}", def.id, path);
		}
		total_evals += res.stats.evaluations;
		total_nt += res.stats.nontrivial.len() as u64 + res.stats.extra_nontrivial;
		if res.stats.exhaustive {
			exhaustive_subspaces.push(sub.name.to_string());
		} else {
			all_exhaustive = false;
		}
		for s in res.stats.samples.iter().take(2) {
			if samples.len() < 12 {
				samples.push(json!({"sub": sub.name, "case": s}));
			}
		}
		let class_samples: serde_json::Map<String, Value> =
			res.stats.class_samples.iter().take(6).map(|(k, v)| (k.clone(), v.clone())).collect();
		per_sub.insert(
			sub.name.to_string(),
			json!({
				"evaluations": res.stats.evaluations,
				"distinct_nontrivial": res.stats.nontrivial.len() as u64 + res.stats.extra_nontrivial,
				"exhaustive": res.stats.exhaustive,
				"classes": res.stats.classes,
				"class_samples": class_samples,
				"notes": res.stats.notes,
				"wall_s": dt,
				"failed": res.failure.is_some(),
			}),
		);
		eprintln!(
			"[{} {} {}] {} cases, {} distinct non-trivial, {:.1}s{}",
			def.id,
			variant_name(),
			sub.name,
			res.stats.evaluations,
			res.stats.nontrivial.len() as u64 + res.stats.extra_nontrivial,
			dt,
			if res.failure.is_some() { "  ** FAILED **" } else { "" }
		);
	}
	let frag = json!({
		"variant": variant_name(),
		"evaluations": total_evals,
		"distinct_nontrivial": total_nt,
		"samples": samples,
		"subs": per_sub,
		"exhaustive": all_exhaustive && !exhaustive_subspaces.is_empty(),
		"exhaustive_subspaces": exhaustive_subspaces,
		"violations": violations,
		"wall_s": start.elapsed().as_secs_f64(),
		"rule": def.rule,
		"assumptions": def.assumptions,
	});
	(RunOutcome { violations, inconclusive }, frag)
}

pub fn replay_property(def: &PropertyDef, path: &str) -> Result<(), String> {
	let text = std::fs::read_to_string(path).map_err(|e| format!("cannot read {path}: {e}"))?;
	let doc: Value = serde_json::from_str(&text).map_err(|e| format!("replay file is not JSON: {e}"))?;
	let sub_name = doc["sub"].as_str().ok_or("replay file has no 'sub'")?;
	let sub = def
		.subs
		.iter()
		.find(|s| s.name == sub_name)
		.ok_or_else(|| format!("property {} has no sub-check '{sub_name}' in this variant", def.id))?;
	let classes = (sub.replay)(&doc["case"])?;
	for c in classes {
		if let Some(class) = c.strip_prefix("known:") {
			if let Some(line) = crate::findings::known_line(class) {
				println!("{line}");
			}
		}
	}
	Ok(())
}
