//! Schema-aware decoders for Certificate (RFC 5280), CertificationRequest (RFC 2986),
//! CertificateList (RFC 5280 §5), SubjectPublicKeyInfo and every extension rcgen can write.
//! Built on `der.rs`; shares no code with rcgen, yasna or x509-parser.

use crate::der::*;

pub const OID_AKI: &[u64] = &[2, 5, 29, 35];
pub const OID_SKI: &[u64] = &[2, 5, 29, 14];
pub const OID_KU: &[u64] = &[2, 5, 29, 15];
pub const OID_SAN: &[u64] = &[2, 5, 29, 17];
pub const OID_BC: &[u64] = &[2, 5, 29, 19];
pub const OID_NC: &[u64] = &[2, 5, 29, 30];
pub const OID_CRLDP: &[u64] = &[2, 5, 29, 31];
pub const OID_EKU: &[u64] = &[2, 5, 29, 37];
pub const OID_CRL_NUMBER: &[u64] = &[2, 5, 29, 20];
pub const OID_CRL_REASON: &[u64] = &[2, 5, 29, 21];
pub const OID_INVALIDITY_DATE: &[u64] = &[2, 5, 29, 24];
pub const OID_IDP: &[u64] = &[2, 5, 29, 28];
pub const OID_EXT_REQ: &[u64] = &[1, 2, 840, 113549, 1, 9, 14];

#[derive(Clone, Debug, PartialEq, Eq)]
pub struct Attr {
	pub oid: Vec<u64>,
	/// universal tag number of the value
	pub tag: u32,
	pub bytes: Vec<u8>,
	pub text: Option<String>,
}

#[derive(Clone, Debug, PartialEq, Eq, Default)]
pub struct Name {
	pub rdns: Vec<Vec<Attr>>,
	pub raw: Vec<u8>,
}

impl Name {
	/// Flat list when every RDN is single-valued.
	pub fn flat(&self) -> Option<Vec<&Attr>> {
		let mut v = Vec::new();
		for r in &self.rdns {
			if r.len() != 1 {
				return None;
			}
			v.push(&r[0]);
		}
		Some(v)
	}
}

#[derive(Clone, Debug, PartialEq, Eq)]
pub enum GeneralName {
	OtherName {
		oid: Vec<u64>,
		/// raw encoding of the value inside `[0] EXPLICIT`
		value_raw: Vec<u8>,
		value_tag: u32,
		value_text: Option<String>,
	},
	Rfc822(Vec<u8>),
	Dns(Vec<u8>),
	DirectoryName(Name),
	Uri(Vec<u8>),
	Ip(Vec<u8>),
	RegisteredId(Vec<u64>),
	Other(u32, Vec<u8>),
}

#[derive(Clone, Debug, PartialEq, Eq)]
pub struct DistPoint {
	pub full_name: Vec<GeneralName>,
}

#[derive(Clone, Debug, PartialEq, Eq)]
pub enum ExtValue {
	Aki {
		key_id: Option<Vec<u8>>,
		has_issuer_or_serial: bool,
	},
	Ski(Vec<u8>),
	KeyUsage(Vec<u32>),
	San(Vec<GeneralName>),
	Eku(Vec<Vec<u64>>),
	BasicConstraints {
		ca: bool,
		path_len: Option<u64>,
	},
	NameConstraints {
		permitted: Vec<GeneralName>,
		excluded: Vec<GeneralName>,
		has_permitted: bool,
		has_excluded: bool,
	},
	CrlDps(Vec<DistPoint>),
	CrlNumber(Vec<u8>),
	Idp {
		full_name: Option<Vec<GeneralName>>,
		only_user: bool,
		only_ca: bool,
		other_fields: bool,
	},
	Reason(u64),
	InvalidityDate(TimeVal),
	Unknown,
}

#[derive(Clone, Debug, PartialEq, Eq)]
pub struct Ext {
	pub oid: Vec<u64>,
	pub critical: bool,
	/// content of the extnValue OCTET STRING
	pub value_raw: Vec<u8>,
	pub value: ExtValue,
}

#[derive(Clone, Debug, PartialEq, Eq)]
pub struct AlgId {
	pub raw: Vec<u8>,
	pub oid: Vec<u64>,
	/// raw encoding of the parameters element, if present
	pub params_raw: Option<Vec<u8>>,
}

#[derive(Clone, Debug, PartialEq, Eq)]
pub struct Spki {
	pub raw: Vec<u8>,
	pub alg: AlgId,
	pub key_bits: Vec<u8>,
}

#[derive(Clone, Debug)]
pub struct Cert {
	pub raw: Vec<u8>,
	pub tbs_raw: Vec<u8>,
	/// value of the version field; `None` when absent (v1)
	pub version: Option<u64>,
	/// INTEGER content octets as encoded
	pub serial: Vec<u8>,
	pub inner_alg: AlgId,
	pub issuer: Name,
	pub not_before: TimeVal,
	pub not_after: TimeVal,
	pub subject: Name,
	pub spki: Spki,
	pub has_unique_ids: bool,
	/// `None` when the extensions field is absent
	pub extensions: Option<Vec<Ext>>,
	pub outer_alg: AlgId,
	pub signature: Vec<u8>,
}

#[derive(Clone, Debug)]
pub struct CsrAttr {
	pub oid: Vec<u64>,
	/// raw encoding of the `values` SET (tag, length and content)
	pub values_raw: Vec<u8>,
	pub raw: Vec<u8>,
}

#[derive(Clone, Debug)]
pub struct Csr {
	pub raw: Vec<u8>,
	pub cri_raw: Vec<u8>,
	pub version: u64,
	pub subject: Name,
	pub spki: Spki,
	pub attributes_present: bool,
	pub attributes: Vec<CsrAttr>,
	/// decoded extensionRequest attributes (each a list of extensions)
	pub ext_requests: Vec<Vec<Ext>>,
	pub outer_alg: AlgId,
	pub signature: Vec<u8>,
}

#[derive(Clone, Debug)]
pub struct RevokedEntry {
	pub serial: Vec<u8>,
	pub revocation_date: TimeVal,
	pub extensions: Option<Vec<Ext>>,
}

#[derive(Clone, Debug)]
pub struct Crl {
	pub raw: Vec<u8>,
	pub tbs_raw: Vec<u8>,
	pub version: Option<u64>,
	pub inner_alg: AlgId,
	pub issuer: Name,
	pub this_update: TimeVal,
	pub next_update: Option<TimeVal>,
	/// `None` when the revokedCertificates field is absent
	pub revoked: Option<Vec<RevokedEntry>>,
	pub extensions: Option<Vec<Ext>>,
	pub outer_alg: AlgId,
	pub signature: Vec<u8>,
}

pub fn parse_alg_id(t: &Tlv<'_>, l: &Lints, what: &str) -> Result<AlgId, String> {
	let items = expect_seq(t, l, what)?;
	if items.is_empty() || items.len() > 2 {
		return Err(format!("{what}: AlgorithmIdentifier with {} elements", items.len()));
	}
	let o = oid(&items[0], l, what)?;
	Ok(AlgId {
		raw: t.raw.to_vec(),
		oid: o,
		params_raw: items.get(1).map(|p| p.raw.to_vec()),
	})
}

pub fn parse_spki(t: &Tlv<'_>, l: &Lints, what: &str) -> Result<Spki, String> {
	let items = expect_seq(t, l, what)?;
	if items.len() != 2 {
		return Err(format!("{what}: SubjectPublicKeyInfo with {} elements", items.len()));
	}
	let alg = parse_alg_id(&items[0], l, &format!("{what}.algorithm"))?;
	let key = bit_string_octets(&items[1], l, &format!("{what}.subjectPublicKey"))?;
	Ok(Spki {
		raw: t.raw.to_vec(),
		alg,
		key_bits: key.to_vec(),
	})
}

pub fn parse_spki_der(der: &[u8], l: &Lints) -> Result<Spki, String> {
	let t = read_single(der, l, "SubjectPublicKeyInfo")?;
	parse_spki(&t, l, "SubjectPublicKeyInfo")
}

pub fn parse_name(t: &Tlv<'_>, l: &Lints, what: &str) -> Result<Name, String> {
	let rdns_t = expect_seq(t, l, what)?;
	let mut rdns = Vec::new();
	for r in &rdns_t {
		let attrs_t = expect_set(r, l, &format!("{what}.rdn"))?;
		if attrs_t.is_empty() {
			return Err(format!("{what}: empty RelativeDistinguishedName"));
		}
		check_set_of_sorted(&attrs_t, l, &format!("{what}.rdn"));
		let mut attrs = Vec::new();
		for a in &attrs_t {
			let parts = expect_seq(a, l, &format!("{what}.atv"))?;
			if parts.len() != 2 {
				return Err(format!("{what}: AttributeTypeAndValue with {} elements", parts.len()));
			}
			let o = oid(&parts[0], l, &format!("{what}.atv.type"))?;
			let v = &parts[1];
			if v.class != CLASS_UNIVERSAL {
				return Err(format!("{what}: attribute value with non-universal tag"));
			}
			if v.constructed
				&& matches!(v.num, T_UTF8 | T_PRINTABLE | T_IA5 | T_TELETEX | T_BMP | T_UNIVERSAL_STR)
			{
				return Err(format!("{what}: constructed string encoding"));
			}
			let text = string_text(v.num, v.content, l, &format!("{what}.atv.value"));
			attrs.push(Attr {
				oid: o,
				tag: v.num,
				bytes: v.content.to_vec(),
				text,
			});
		}
		rdns.push(attrs);
	}
	Ok(Name {
		rdns,
		raw: t.raw.to_vec(),
	})
}

fn ia5_content(t: &Tlv<'_>, l: &Lints, what: &str) -> Result<Vec<u8>, String> {
	if t.constructed {
		return Err(format!("{what}: constructed IA5String"));
	}
	if !t.content.iter().all(|&b| b < 0x80) {
		l.add(format!("{what}: IA5String outside its alphabet"));
	}
	Ok(t.content.to_vec())
}

pub fn parse_general_name(t: &Tlv<'_>, l: &Lints, what: &str) -> Result<GeneralName, String> {
	if t.class != CLASS_CONTEXT {
		return Err(format!("{what}: GeneralName with non-context tag: {}", t.describe()));
	}
	Ok(match t.num {
		0 => {
			if !t.constructed {
				return Err(format!("{what}: otherName not constructed"));
			}
			let parts = children(t.content, l)?;
			if parts.len() != 2 {
				return Err(format!("{what}: otherName with {} elements", parts.len()));
			}
			let o = oid(&parts[0], l, &format!("{what}.otherName.type-id"))?;
			if !(parts[1].is_context(0) && parts[1].constructed) {
				return Err(format!("{what}: otherName value is not [0] EXPLICIT"));
			}
			let inner = read_single(parts[1].content, l, &format!("{what}.otherName.value"))?;
			let text = if inner.class == CLASS_UNIVERSAL {
				string_text(inner.num, inner.content, l, &format!("{what}.otherName.value"))
			} else {
				None
			};
			GeneralName::OtherName {
				oid: o,
				value_raw: inner.raw.to_vec(),
				value_tag: inner.num,
				value_text: text,
			}
		},
		1 => GeneralName::Rfc822(ia5_content(t, l, &format!("{what}.rfc822Name"))?),
		2 => GeneralName::Dns(ia5_content(t, l, &format!("{what}.dNSName"))?),
		4 => {
			// Name is a CHOICE, so the context tag is EXPLICIT (X.680 31.2.7).
			if !t.constructed {
				return Err(format!("{what}: directoryName not constructed"));
			}
			let inner = read_single(t.content, l, &format!("{what}.directoryName"))
				.map_err(|e| format!("{e} (directoryName must be [4] EXPLICIT Name)"))?;
			if !inner.is_universal(T_SEQUENCE) {
				return Err(format!(
					"{what}: directoryName [4] does not contain an explicit RDNSequence (found {}); the tag must be EXPLICIT because Name is a CHOICE",
					inner.describe()
				));
			}
			GeneralName::DirectoryName(parse_name(&inner, l, &format!("{what}.directoryName"))?)
		},
		6 => GeneralName::Uri(ia5_content(t, l, &format!("{what}.uniformResourceIdentifier"))?),
		7 => {
			if t.constructed {
				return Err(format!("{what}: constructed iPAddress"));
			}
			GeneralName::Ip(t.content.to_vec())
		},
		8 => GeneralName::RegisteredId(oid_from_content(t.content, l, what)?),
		n => GeneralName::Other(n, t.raw.to_vec()),
	})
}

fn parse_general_names(content: &[u8], l: &Lints, what: &str) -> Result<Vec<GeneralName>, String> {
	children(content, l)?
		.iter()
		.map(|t| parse_general_name(t, l, what))
		.collect()
}

fn parse_subtrees(t: &Tlv<'_>, l: &Lints, what: &str) -> Result<Vec<GeneralName>, String> {
	if !t.constructed {
		return Err(format!("{what}: GeneralSubtrees not constructed"));
	}
	let mut out = Vec::new();
	for st in children(t.content, l)? {
		let parts = expect_seq(&st, l, &format!("{what}.subtree"))?;
		if parts.is_empty() {
			return Err(format!("{what}: empty GeneralSubtree"));
		}
		out.push(parse_general_name(&parts[0], l, &format!("{what}.base"))?);
		for p in &parts[1..] {
			if p.is_context(0) {
				let c = integer_content(p, l, &format!("{what}.minimum"))?;
				if uint_from_content(c, what)? == 0 {
					l.add(format!("{what}: GeneralSubtree minimum 0 (the DEFAULT) is encoded"));
				}
			} else if p.is_context(1) {
				l.add(format!("{what}: GeneralSubtree maximum present (RFC 5280 forbids)"));
			} else {
				return Err(format!("{what}: unexpected element in GeneralSubtree"));
			}
		}
	}
	if out.is_empty() {
		return Err(format!("{what}: GeneralSubtrees SIZE (1..MAX) violated"));
	}
	Ok(out)
}

fn parse_dp_name(t: &Tlv<'_>, l: &Lints, what: &str) -> Result<Vec<GeneralName>, String> {
	// distributionPoint [0] EXPLICIT DistributionPointName (a CHOICE)
	if !t.constructed {
		return Err(format!("{what}: distributionPoint not constructed"));
	}
	let inner = read_single(t.content, l, what)?;
	if !(inner.is_context(0) && inner.constructed) {
		return Err(format!("{what}: only fullName [0] is supported, got {}", inner.describe()));
	}
	let names = parse_general_names(inner.content, l, &format!("{what}.fullName"))?;
	if names.is_empty() {
		l.add(format!("{what}: GeneralNames SIZE (1..MAX) violated (empty fullName)"));
	}
	Ok(names)
}

pub fn parse_ext_value(oid_v: &[u64], v: &[u8], l: &Lints) -> Result<ExtValue, String> {
	let name = format!("ext{:?}", oid_v);
	let what = name.as_str();
	Ok(match oid_v {
		x if x == OID_AKI => {
			let t = read_single(v, l, what)?;
			let parts = expect_seq(&t, l, what)?;
			let mut key_id = None;
			let mut other = false;
			for p in &parts {
				if p.is_context(0) {
					if p.constructed {
						return Err(format!("{what}: keyIdentifier constructed"));
					}
					key_id = Some(p.content.to_vec());
				} else {
					other = true;
				}
			}
			ExtValue::Aki {
				key_id,
				has_issuer_or_serial: other,
			}
		},
		x if x == OID_SKI => {
			let t = read_single(v, l, what)?;
			ExtValue::Ski(octet_string(&t, what)?.to_vec())
		},
		x if x == OID_KU => {
			let t = read_single(v, l, what)?;
			ExtValue::KeyUsage(named_bits(&t, l, "keyUsage")?)
		},
		x if x == OID_SAN => {
			let t = read_single(v, l, what)?;
			if !t.is_universal(T_SEQUENCE) {
				return Err(format!("{what}: expected SEQUENCE"));
			}
			ExtValue::San(parse_general_names(t.content, l, "subjectAltName")?)
		},
		x if x == OID_EKU => {
			let t = read_single(v, l, what)?;
			let parts = expect_seq(&t, l, what)?;
			let mut v = Vec::new();
			for p in &parts {
				v.push(oid(p, l, "extKeyUsage")?);
			}
			ExtValue::Eku(v)
		},
		x if x == OID_BC => {
			let t = read_single(v, l, what)?;
			let parts = expect_seq(&t, l, what)?;
			let mut ca = false;
			let mut path_len = None;
			let mut i = 0;
			if i < parts.len() && parts[i].is_universal(T_BOOLEAN) {
				ca = boolean(&parts[i], l, "basicConstraints.cA")?;
				if !ca {
					l.add("basicConstraints: cA FALSE (the DEFAULT) is encoded");
				}
				i += 1;
			}
			if i < parts.len() && parts[i].is_universal(T_INTEGER) {
				path_len = Some(small_uint(&parts[i], l, "basicConstraints.pathLen")?);
				i += 1;
			}
			if i != parts.len() {
				return Err("basicConstraints: unexpected trailing element".into());
			}
			ExtValue::BasicConstraints { ca, path_len }
		},
		x if x == OID_NC => {
			let t = read_single(v, l, what)?;
			let parts = expect_seq(&t, l, what)?;
			let mut permitted = Vec::new();
			let mut excluded = Vec::new();
			let (mut hp, mut he) = (false, false);
			let mut last = -1i32;
			for p in &parts {
				if p.class != CLASS_CONTEXT || p.num > 1 || (p.num as i32) <= last {
					return Err(format!("nameConstraints: unexpected element {}", p.describe()));
				}
				last = p.num as i32;
				if p.num == 0 {
					hp = true;
					permitted = parse_subtrees(p, l, "nameConstraints.permitted")?;
				} else {
					he = true;
					excluded = parse_subtrees(p, l, "nameConstraints.excluded")?;
				}
			}
			ExtValue::NameConstraints {
				permitted,
				excluded,
				has_permitted: hp,
				has_excluded: he,
			}
		},
		x if x == OID_CRLDP => {
			let t = read_single(v, l, what)?;
			let dps = expect_seq(&t, l, what)?;
			let mut out = Vec::new();
			for dp in &dps {
				let parts = expect_seq(dp, l, "cRLDistributionPoints.dp")?;
				let mut full_name = Vec::new();
				for p in &parts {
					if p.is_context(0) {
						full_name = parse_dp_name(p, l, "cRLDistributionPoints.dp.name")?;
					} else {
						return Err("cRLDistributionPoints: unsupported DistributionPoint field".into());
					}
				}
				out.push(DistPoint { full_name });
			}
			ExtValue::CrlDps(out)
		},
		x if x == OID_CRL_NUMBER => {
			let t = read_single(v, l, what)?;
			ExtValue::CrlNumber(integer_bytes(&t, l, "cRLNumber")?.to_vec())
		},
		x if x == OID_IDP => {
			let t = read_single(v, l, what)?;
			let parts = expect_seq(&t, l, what)?;
			let mut full_name = None;
			let (mut only_user, mut only_ca, mut other) = (false, false, false);
			let mut last = -1i32;
			for p in &parts {
				if p.class != CLASS_CONTEXT || (p.num as i32) <= last {
					return Err(format!("issuingDistributionPoint: unexpected element {}", p.describe()));
				}
				last = p.num as i32;
				match p.num {
					0 => full_name = Some(parse_dp_name(p, l, "issuingDistributionPoint.name")?),
					1 | 2 | 4 | 5 => {
						let b = boolean_content(p, l, "issuingDistributionPoint.flag")?;
						if !b {
							l.add("issuingDistributionPoint: BOOLEAN FALSE (the DEFAULT) is encoded");
						}
						match p.num {
							1 => only_user = b,
							2 => only_ca = b,
							_ => other = true,
						}
					},
					_ => other = true,
				}
			}
			ExtValue::Idp {
				full_name,
				only_user,
				only_ca,
				other_fields: other,
			}
		},
		x if x == OID_CRL_REASON => {
			let t = read_single(v, l, what)?;
			if !t.is_universal(T_ENUMERATED) {
				return Err(format!("cRLReason: expected ENUMERATED, got {}", t.describe()));
			}
			let c = integer_content(&t, l, "cRLReason")?;
			ExtValue::Reason(uint_from_content(c, "cRLReason")?)
		},
		x if x == OID_INVALIDITY_DATE => {
			let t = read_single(v, l, what)?;
			let tv = time(&t, "invalidityDate")?;
			ExtValue::InvalidityDate(tv)
		},
		_ => ExtValue::Unknown,
	})
}

/// `Extensions ::= SEQUENCE SIZE (1..MAX) OF Extension`
pub fn parse_extensions(t: &Tlv<'_>, l: &Lints, what: &str) -> Result<Vec<Ext>, String> {
	let items = expect_seq(t, l, what)?;
	if items.is_empty() {
		l.add(format!("{what}: Extensions SIZE (1..MAX) violated (empty)"));
	}
	let mut out = Vec::new();
	for e in &items {
		let parts = expect_seq(e, l, &format!("{what}.extension"))?;
		if parts.len() < 2 || parts.len() > 3 {
			return Err(format!("{what}: Extension with {} elements", parts.len()));
		}
		let o = oid(&parts[0], l, &format!("{what}.extnID"))?;
		let mut critical = false;
		let mut idx = 1;
		if parts.len() == 3 {
			critical = boolean(&parts[1], l, &format!("{what}.critical"))?;
			if !critical {
				l.add(format!("{what}: critical FALSE (the DEFAULT) is encoded for {:?}", o));
			}
			idx = 2;
		}
		let v = octet_string(&parts[idx], &format!("{what}.extnValue"))?;
		let value = parse_ext_value(&o, v, l).map_err(|e| format!("{what}: {e}"))?;
		out.push(Ext {
			oid: o,
			critical,
			value_raw: v.to_vec(),
			value,
		});
	}
	Ok(out)
}

fn split_signed<'a>(der: &'a [u8], l: &Lints, what: &str) -> Result<(Tlv<'a>, AlgId, Vec<u8>), String> {
	let outer = read_single(der, l, what)?;
	let parts = expect_seq(&outer, l, what)?;
	if parts.len() != 3 {
		return Err(format!("{what}: outer SEQUENCE has {} elements", parts.len()));
	}
	let alg = parse_alg_id(&parts[1], l, &format!("{what}.signatureAlgorithm"))?;
	let sig = bit_string_octets(&parts[2], l, &format!("{what}.signature"))?.to_vec();
	Ok((parts[0], alg, sig))
}

pub fn parse_cert(der: &[u8], l: &Lints) -> Result<Cert, String> {
	let (tbs, outer_alg, signature) = split_signed(der, l, "Certificate")?;
	let p = expect_seq(&tbs, l, "tbsCertificate")?;
	let mut i = 0;
	let mut version = None;
	if i < p.len() && p[i].is_context(0) {
		if !p[i].constructed {
			return Err("version: [0] must be EXPLICIT".into());
		}
		let inner = read_single(p[i].content, l, "version")?;
		let v = small_uint(&inner, l, "version")?;
		if v == 0 {
			l.add("version v1 (the DEFAULT) is encoded");
		}
		version = Some(v);
		i += 1;
	}
	if p.len() < i + 6 {
		return Err(format!("tbsCertificate has only {} elements", p.len()));
	}
	let serial = integer_bytes(&p[i], l, "serialNumber")?.to_vec();
	let inner_alg = parse_alg_id(&p[i + 1], l, "tbsCertificate.signature")?;
	let issuer = parse_name(&p[i + 2], l, "issuer")?;
	let val = expect_seq(&p[i + 3], l, "validity")?;
	if val.len() != 2 {
		return Err("validity must have two elements".into());
	}
	let not_before = time(&val[0], "notBefore")?;
	let not_after = time(&val[1], "notAfter")?;
	let subject = parse_name(&p[i + 4], l, "subject")?;
	let spki = parse_spki(&p[i + 5], l, "subjectPublicKeyInfo")?;
	i += 6;
	let mut has_unique_ids = false;
	let mut extensions = None;
	while i < p.len() {
		let t = &p[i];
		if t.is_context(1) || t.is_context(2) {
			has_unique_ids = true;
		} else if t.is_context(3) {
			if !t.constructed {
				return Err("extensions: [3] must be EXPLICIT".into());
			}
			let inner = read_single(t.content, l, "extensions")?;
			extensions = Some(parse_extensions(&inner, l, "extensions")?);
			if i != p.len() - 1 {
				return Err("extensions is not the last element".into());
			}
		} else {
			return Err(format!("unexpected element in tbsCertificate: {}", t.describe()));
		}
		i += 1;
	}
	Ok(Cert {
		raw: der.to_vec(),
		tbs_raw: tbs.raw.to_vec(),
		version,
		serial,
		inner_alg,
		issuer,
		not_before,
		not_after,
		subject,
		spki,
		has_unique_ids,
		extensions,
		outer_alg,
		signature,
	})
}

pub fn parse_csr(der: &[u8], l: &Lints) -> Result<Csr, String> {
	let (cri, outer_alg, signature) = split_signed(der, l, "CertificationRequest")?;
	let p = expect_seq(&cri, l, "certificationRequestInfo")?;
	if p.len() < 3 || p.len() > 4 {
		return Err(format!("certificationRequestInfo has {} elements", p.len()));
	}
	let version = small_uint(&p[0], l, "csr.version")?;
	let subject = parse_name(&p[1], l, "csr.subject")?;
	let spki = parse_spki(&p[2], l, "csr.subjectPKInfo")?;
	let mut attributes = Vec::new();
	let mut ext_requests = Vec::new();
	let attributes_present = p.len() == 4;
	if attributes_present {
		let at = &p[3];
		if !(at.is_context(0) && at.constructed) {
			return Err(format!("csr.attributes: expected [0] constructed, got {}", at.describe()));
		}
		let items = children(at.content, l)?;
		check_set_of_sorted(&items, l, "csr.attributes");
		for a in &items {
			let parts = expect_seq(a, l, "csr.attribute")?;
			if parts.len() != 2 {
				return Err(format!("csr.attribute has {} elements", parts.len()));
			}
			let o = oid(&parts[0], l, "csr.attribute.type")?;
			let values_raw = parts[1].raw.to_vec();
			if o == OID_EXT_REQ {
				let vals = expect_set(&parts[1], l, "extensionRequest.values")?;
				if vals.len() != 1 {
					return Err(format!("extensionRequest has {} values", vals.len()));
				}
				ext_requests.push(parse_extensions(&vals[0], l, "extensionRequest")?);
			}
			attributes.push(CsrAttr {
				oid: o,
				values_raw,
				raw: a.raw.to_vec(),
			});
		}
	}
	Ok(Csr {
		raw: der.to_vec(),
		cri_raw: cri.raw.to_vec(),
		version,
		subject,
		spki,
		attributes_present,
		attributes,
		ext_requests,
		outer_alg,
		signature,
	})
}

pub fn parse_crl(der: &[u8], l: &Lints) -> Result<Crl, String> {
	let (tbs, outer_alg, signature) = split_signed(der, l, "CertificateList")?;
	let p = expect_seq(&tbs, l, "tbsCertList")?;
	let mut i = 0;
	let mut version = None;
	if i < p.len() && p[i].is_universal(T_INTEGER) {
		version = Some(small_uint(&p[i], l, "crl.version")?);
		i += 1;
	}
	if p.len() < i + 3 {
		return Err("tbsCertList too short".into());
	}
	let inner_alg = parse_alg_id(&p[i], l, "tbsCertList.signature")?;
	let issuer = parse_name(&p[i + 1], l, "crl.issuer")?;
	let this_update = time(&p[i + 2], "thisUpdate")?;
	i += 3;
	let mut next_update = None;
	if i < p.len() && p[i].class == CLASS_UNIVERSAL && (p[i].num == T_UTCTIME || p[i].num == T_GENTIME) {
		next_update = Some(time(&p[i], "nextUpdate")?);
		i += 1;
	}
	let mut revoked = None;
	if i < p.len() && p[i].is_universal(T_SEQUENCE) {
		let entries = expect_seq(&p[i], l, "revokedCertificates")?;
		let mut v = Vec::new();
		for e in &entries {
			let parts = expect_seq(e, l, "revokedCertificate")?;
			if parts.len() < 2 || parts.len() > 3 {
				return Err(format!("revokedCertificate has {} elements", parts.len()));
			}
			let serial = integer_bytes(&parts[0], l, "userCertificate")?.to_vec();
			let revocation_date = time(&parts[1], "revocationDate")?;
			let extensions = if parts.len() == 3 {
				Some(parse_extensions(&parts[2], l, "crlEntryExtensions")?)
			} else {
				None
			};
			v.push(RevokedEntry {
				serial,
				revocation_date,
				extensions,
			});
		}
		revoked = Some(v);
		i += 1;
	}
	let mut extensions = None;
	if i < p.len() {
		let t = &p[i];
		if !(t.is_context(0) && t.constructed) {
			return Err(format!("unexpected element in tbsCertList: {}", t.describe()));
		}
		let inner = read_single(t.content, l, "crlExtensions")?;
		extensions = Some(parse_extensions(&inner, l, "crlExtensions")?);
		i += 1;
	}
	if i != p.len() {
		return Err("trailing elements in tbsCertList".into());
	}
	Ok(Crl {
		raw: der.to_vec(),
		tbs_raw: tbs.raw.to_vec(),
		version,
		inner_alg,
		issuer,
		this_update,
		next_update,
		revoked,
		extensions,
		outer_alg,
		signature,
	})
}

/// Checks RFC 5280 time-form rule as a lint: UTCTime iff year in 1950..=2049. invalidityDate is
/// always GeneralizedTime and is checked by its own decoder.
pub fn lint_time_form(tv: &TimeVal, l: &Lints, what: &str) {
	let y = unix_year(tv.unix);
	let want_utc = (1950..=2049).contains(&y);
	if want_utc != (tv.form == TimeForm::Utc) {
		l.add(format!("{what}: year {y} encoded as {:?}", tv.form));
	}
}

pub fn find_ext<'a>(exts: &'a Option<Vec<Ext>>, oid: &[u64]) -> Vec<&'a Ext> {
	exts.iter().flatten().filter(|e| e.oid == oid).collect()
}
