//! Strict RFC 7468 decoder (independent of the `pem` crate): exact BEGIN/END lines, LF line
//! endings, 64-character base64 lines except the last, canonical padding with zero pad bits,
//! nothing but one newline after the END line.

fn b64val(c: u8) -> Option<u32> {
	match c {
		b'A'..=b'Z' => Some((c - b'A') as u32),
		b'a'..=b'z' => Some((c - b'a') as u32 + 26),
		b'0'..=b'9' => Some((c - b'0') as u32 + 52),
		b'+' => Some(62),
		b'/' => Some(63),
		_ => None,
	}
}

/// Strict base64 (RFC 4648 §4) of one complete string: length multiple of 4, padding only at
/// the end, pad bits zero.
pub fn b64_decode_strict(s: &[u8]) -> Result<Vec<u8>, String> {
	if s.len() % 4 != 0 {
		return Err(format!("base64 length {} is not a multiple of 4", s.len()));
	}
	let mut out = Vec::with_capacity(s.len() / 4 * 3);
	let n = s.len() / 4;
	for (i, q) in s.chunks(4).enumerate() {
		let last = i == n - 1;
		let pads = q.iter().rev().take_while(|&&c| c == b'=').count();
		if pads > 2 || (pads > 0 && !last) {
			return Err("misplaced base64 padding".into());
		}
		let mut v = 0u32;
		for &c in &q[..4 - pads] {
			v = (v << 6) | b64val(c).ok_or_else(|| format!("invalid base64 character {:?}", c as char))?;
		}
		match pads {
			0 => out.extend_from_slice(&[(v >> 16) as u8, (v >> 8) as u8, v as u8]),
			1 => {
				if v & 0x3 != 0 {
					return Err("non-zero base64 pad bits".into());
				}
				let v = v >> 2;
				out.extend_from_slice(&[(v >> 8) as u8, v as u8]);
			},
			_ => {
				if v & 0xf != 0 {
					return Err("non-zero base64 pad bits".into());
				}
				out.push((v >> 4) as u8);
			},
		}
	}
	Ok(out)
}

pub fn decode(text: &str, want_label: &str) -> Result<Vec<u8>, String> {
	if text.contains('\r') {
		return Err("carriage return in PEM text (LF line endings required outside Windows)".into());
	}
	if !text.ends_with('\n') {
		return Err("PEM text does not end with a newline".into());
	}
	let body = &text[..text.len() - 1];
	let lines: Vec<&str> = body.split('\n').collect();
	if lines.len() < 2 {
		return Err("PEM text has fewer than two lines".into());
	}
	let begin = format!("-----BEGIN {want_label}-----");
	let end = format!("-----END {want_label}-----");
	if lines[0] != begin {
		return Err(format!("first line is {:?}, expected {:?}", lines[0], begin));
	}
	if lines[lines.len() - 1] != end {
		return Err(format!("last line is {:?}, expected {:?}", lines[lines.len() - 1], end));
	}
	let b64 = &lines[1..lines.len() - 1];
	let mut joined = Vec::new();
	for (i, l) in b64.iter().enumerate() {
		let last = i == b64.len() - 1;
		if l.is_empty() {
			return Err(format!("empty line {} inside the base64 body", i + 2));
		}
		if !last && l.len() != 64 {
			return Err(format!("body line {} has {} characters (64 required except on the last line)", i + 2, l.len()));
		}
		if last && l.len() > 64 {
			return Err(format!("last body line has {} characters", l.len()));
		}
		if l.contains('=') && !last {
			return Err("padding before the last body line".into());
		}
		joined.extend_from_slice(l.as_bytes());
	}
	b64_decode_strict(&joined)
}

#[cfg(test)]
mod tests {
	use super::*;
	#[test]
	fn b64() {
		assert_eq!(b64_decode_strict(b"TWFu").unwrap(), b"Man");
		assert_eq!(b64_decode_strict(b"TWE=").unwrap(), b"Ma");
		assert_eq!(b64_decode_strict(b"TQ==").unwrap(), b"M");
		assert!(b64_decode_strict(b"TR==").is_err());
		assert!(b64_decode_strict(b"TWF=").is_err());
		assert!(b64_decode_strict(b"TQ=").is_err());
		assert!(b64_decode_strict(b"T=Q=").is_err());
	}
	#[test]
	fn pem() {
		let t = "-----BEGIN X-----\nTWFu\n-----END X-----\n";
		assert_eq!(decode(t, "X").unwrap(), b"Man");
		assert!(decode(t, "Y").is_err());
		assert!(decode("-----BEGIN X-----\r\nTWFu\r\n-----END X-----\r\n", "X").is_err());
		assert!(decode("-----BEGIN X-----\nTW\nFu\n-----END X-----\n", "X").is_err());
		assert!(decode("-----BEGIN X-----\nTWFu\n-----END X-----\n\n", "X").is_err());
		assert!(decode("-----BEGIN X-----\nTWFu\n-----END X-----", "X").is_err());
	}
}

/// Plain RFC 7468 encoder (64-column lines, LF) used to wrap foreign DER for the PEM loaders.
pub fn encode(label: &str, der: &[u8]) -> String {
	const T: &[u8; 64] = b"ABCDEFGHIJKLMNOPQRSTUVWXYZabcdefghijklmnopqrstuvwxyz0123456789+/";
	let mut b64 = String::new();
	for c in der.chunks(3) {
		let v = (c[0] as u32) << 16 | (*c.get(1).unwrap_or(&0) as u32) << 8 | *c.get(2).unwrap_or(&0) as u32;
		b64.push(T[(v >> 18) as usize & 63] as char);
		b64.push(T[(v >> 12) as usize & 63] as char);
		b64.push(if c.len() > 1 { T[(v >> 6) as usize & 63] as char } else { '=' });
		b64.push(if c.len() > 2 { T[v as usize & 63] as char } else { '=' });
	}
	let mut out = format!("-----BEGIN {label}-----\n");
	for line in b64.as_bytes().chunks(64) {
		out.push_str(std::str::from_utf8(line).unwrap());
		out.push('\n');
	}
	out.push_str(&format!("-----END {label}-----\n"));
	out
}
