//! Independent path validators: OpenSSL `X509_verify_cert` and webpki `verify_for_usage`.

use openssl::stack::Stack;
use openssl::x509::store::X509StoreBuilder;
use openssl::x509::verify::X509VerifyParam;
use openssl::x509::{X509PurposeId, X509StoreContext, X509};

#[derive(Clone, Copy, Debug, PartialEq, Eq)]
pub enum Purpose {
	Any,
	Server,
	Client,
}

pub struct Chain<'a> {
	pub leaf: &'a [u8],
	pub intermediates: Vec<&'a [u8]>,
	pub root: &'a [u8],
	/// verification time, seconds since the epoch
	pub at: i64,
	pub purpose: Purpose,
}

/// `Err((code, text))` carries OpenSSL's X509_V_ERR_* code. Default (non-strict) verification flags.
pub fn openssl_verify(c: &Chain<'_>) -> Result<(), (i32, String)> {
	let fail = |e: openssl::error::ErrorStack| (-1, format!("openssl setup: {e}"));
	let leaf = X509::from_der(c.leaf).map_err(|e| (-2, format!("OpenSSL cannot parse the leaf: {e}")))?;
	let root = X509::from_der(c.root).map_err(|e| (-2, format!("OpenSSL cannot parse the root: {e}")))?;
	let mut chain = Stack::new().map_err(fail)?;
	for i in &c.intermediates {
		chain
			.push(X509::from_der(i).map_err(|e| (-2, format!("OpenSSL cannot parse an intermediate: {e}")))?)
			.map_err(fail)?;
	}
	let mut sb = X509StoreBuilder::new().map_err(fail)?;
	sb.add_cert(root).map_err(fail)?;
	let mut param = X509VerifyParam::new().map_err(fail)?;
	param.set_time(c.at as _);
	match c.purpose {
		Purpose::Any => {},
		Purpose::Server => param.set_purpose(X509PurposeId::SSL_SERVER).map_err(fail)?,
		Purpose::Client => param.set_purpose(X509PurposeId::SSL_CLIENT).map_err(fail)?,
	}
	sb.set_param(&param).map_err(fail)?;
	let store = sb.build();
	let mut ctx = X509StoreContext::new().map_err(fail)?;
	let (ok, err) = ctx
		.init(&store, &leaf, &chain, |ctx| {
			let ok = ctx.verify_cert()?;
			Ok((ok, ctx.error()))
		})
		.map_err(fail)?;
	let _ = openssl::error::ErrorStack::get();
	if ok {
		Ok(())
	} else {
		Err((err.as_raw(), err.error_string().to_string()))
	}
}

/// webpki verdict; `Err` carries the Debug rendering of `webpki::Error`.
pub fn webpki_verify(c: &Chain<'_>) -> Result<(), String> {
	use pki_types::{CertificateDer, UnixTime};
	if c.at < 0 {
		return Err("webpki cannot express times before the epoch".into());
	}
	let leaf_der = CertificateDer::from(c.leaf);
	let ee = webpki::EndEntityCert::try_from(&leaf_der).map_err(|e| format!("{e:?}"))?;
	let root_der = CertificateDer::from(c.root);
	let anchor = webpki::anchor_from_trusted_cert(&root_der).map_err(|e| format!("anchor: {e:?}"))?;
	let inter: Vec<CertificateDer<'_>> = c.intermediates.iter().map(|i| CertificateDer::from(*i)).collect();
	let usage = match c.purpose {
		Purpose::Client => webpki::KeyUsage::client_auth(),
		_ => webpki::KeyUsage::server_auth(),
	};
	ee.verify_for_usage(
		webpki::ALL_VERIFICATION_ALGS,
		&[anchor],
		&inter,
		UnixTime::since_unix_epoch(std::time::Duration::from_secs(c.at as u64)),
		usage,
		None,
		None,
	)
	.map(|_| ())
	.map_err(|e| format!("{e:?}"))
}
