//! Spec -> real rcgen values, through the public API only.

use std::net::{IpAddr, Ipv4Addr, Ipv6Addr};
use std::str::FromStr;

use rcgen::string::{BmpString, Ia5String, PrintableString, TeletexString, UniversalString};
use rcgen::{
	Attribute, BasicConstraints, CertificateParams, CertificateRevocationListParams, CidrSubnet,
	CrlDistributionPoint, CrlIssuingDistributionPoint, CrlScope, CustomExtension, DistinguishedName,
	DnType, DnValue, ExtendedKeyUsagePurpose, GeneralSubtree, IsCa, KeyIdMethod, KeyUsagePurpose,
	NameConstraints, RevocationReason, RevokedCertParams, SanType, SerialNumber,
};
use time::{OffsetDateTime, UtcOffset};

use crate::spec::*;

/// `None` when the `time` type cannot represent the value (outside +-9999 years locally).
pub fn time(ts: &TimeSpec) -> Option<OffsetDateTime> {
	let t = OffsetDateTime::from_unix_timestamp(ts.unix).ok()?;
	let t = t.replace_nanosecond(ts.nanos).ok()?;
	let off = UtcOffset::from_whole_seconds(ts.offset).ok()?;
	t.checked_to_offset(off)
}

pub fn dn_type(t: &DnTypeSpec) -> DnType {
	match t {
		DnTypeSpec::Country => DnType::CountryName,
		DnTypeSpec::Locality => DnType::LocalityName,
		DnTypeSpec::State => DnType::StateOrProvinceName,
		DnTypeSpec::Org => DnType::OrganizationName,
		DnTypeSpec::OrgUnit => DnType::OrganizationalUnitName,
		DnTypeSpec::CommonName => DnType::CommonName,
		// Custom types are obtained the way `DnType::from_oid` hands them out (today that is the
		// `CustomDnType` variant; should a type get a named variant one day, callers get that). (Not for the
		// six OIDs that have named variants: `CustomDnType(2.5.4.3)` and `CommonName` are distinct map
		// keys, and the specs keep them apart.)
		DnTypeSpec::Custom(v) => {
			const NAMED: [&[u64]; 6] = [&[2, 5, 4, 6], &[2, 5, 4, 7], &[2, 5, 4, 8], &[2, 5, 4, 10], &[2, 5, 4, 11], &[2, 5, 4, 3]];
			if !NAMED.contains(&v.as_slice()) {
				DnType::from_oid(v)
			} else {
				DnType::CustomDnType(v.clone())
			}
		},
	}
}

pub fn dn_value(v: &DnValueSpec) -> Result<DnValue, rcgen::Error> {
	use std::str::FromStr;
	// the constructor a caller happens to use: TryFrom<&str>, TryFrom<String> or FromStr, by turns
	let which = v.text.len() % 3;
	macro_rules! make {
		($t:ty) => {
			match which {
				0 => <$t>::try_from(v.text.as_str())?,
				1 => <$t>::try_from(v.text.clone())?,
				_ => <$t>::from_str(v.text.as_str())?,
			}
		};
	}
	Ok(match v.kind {
		StrKind::Utf8 => DnValue::Utf8String(v.text.clone()),
		StrKind::Printable => DnValue::PrintableString(make!(PrintableString)),
		StrKind::Ia5 => DnValue::Ia5String(make!(Ia5String)),
		StrKind::Teletex => DnValue::TeletexString(make!(TeletexString)),
		StrKind::Bmp => DnValue::BmpString(make!(BmpString)),
		// (UniversalString has no FromStr)
		StrKind::Universal => DnValue::UniversalString(if which == 1 { UniversalString::try_from(v.text.clone())? } else { UniversalString::try_from(v.text.as_str())? }),
	})
}

pub fn dn(d: &DnSpec) -> Result<DistinguishedName, rcgen::Error> {
	let mut out = DistinguishedName::new();
	for (t, v) in &d.0 {
		match dn_value(v) {
			Ok(val) => out.push(dn_type(t), val),
			// a value that was only *offered* to the constructor is left out when refused
			Err(_) if v.attempt => {},
			Err(e) => return Err(e),
		}
	}
	Ok(out)
}

pub fn ip(bytes: &[u8]) -> IpAddr {
	if bytes.len() == 4 {
		IpAddr::V4(Ipv4Addr::new(bytes[0], bytes[1], bytes[2], bytes[3]))
	} else {
		let mut a = [0u8; 16];
		a.copy_from_slice(&bytes[..16]);
		IpAddr::V6(Ipv6Addr::from(a))
	}
}

pub fn san(s: &SanSpec) -> Result<SanType, rcgen::Error> {
	Ok(match s {
		SanSpec::Rfc822(t) => SanType::Rfc822Name(Ia5String::try_from(t.as_str())?),
		SanSpec::Dns(t) => SanType::DnsName(Ia5String::try_from(t.as_str())?),
		SanSpec::Uri(t) => SanType::URI(Ia5String::try_from(t.as_str())?),
		SanSpec::Ip(b) => SanType::IpAddress(ip(&b.0)),
		SanSpec::OtherName(oid, v) => SanType::OtherName((oid.clone(), v.clone().into())),
	})
}

pub const KU_ALL: [KeyUsagePurpose; 9] = [
	KeyUsagePurpose::DigitalSignature,
	KeyUsagePurpose::ContentCommitment,
	KeyUsagePurpose::KeyEncipherment,
	KeyUsagePurpose::DataEncipherment,
	KeyUsagePurpose::KeyAgreement,
	KeyUsagePurpose::KeyCertSign,
	KeyUsagePurpose::CrlSign,
	KeyUsagePurpose::EncipherOnly,
	KeyUsagePurpose::DecipherOnly,
];

pub fn ku_index(k: &KeyUsagePurpose) -> u8 {
	KU_ALL.iter().position(|x| x == k).unwrap() as u8
}

pub fn eku(e: &EkuSpec) -> ExtendedKeyUsagePurpose {
	match e {
		EkuSpec::Any => ExtendedKeyUsagePurpose::Any,
		EkuSpec::ServerAuth => ExtendedKeyUsagePurpose::ServerAuth,
		EkuSpec::ClientAuth => ExtendedKeyUsagePurpose::ClientAuth,
		EkuSpec::CodeSigning => ExtendedKeyUsagePurpose::CodeSigning,
		EkuSpec::EmailProtection => ExtendedKeyUsagePurpose::EmailProtection,
		EkuSpec::TimeStamping => ExtendedKeyUsagePurpose::TimeStamping,
		EkuSpec::OcspSigning => ExtendedKeyUsagePurpose::OcspSigning,
		EkuSpec::Other(v) => ExtendedKeyUsagePurpose::Other(v.clone()),
	}
}

pub fn eku_spec(e: &ExtendedKeyUsagePurpose) -> EkuSpec {
	match e {
		ExtendedKeyUsagePurpose::Any => EkuSpec::Any,
		ExtendedKeyUsagePurpose::ServerAuth => EkuSpec::ServerAuth,
		ExtendedKeyUsagePurpose::ClientAuth => EkuSpec::ClientAuth,
		ExtendedKeyUsagePurpose::CodeSigning => EkuSpec::CodeSigning,
		ExtendedKeyUsagePurpose::EmailProtection => EkuSpec::EmailProtection,
		ExtendedKeyUsagePurpose::TimeStamping => EkuSpec::TimeStamping,
		ExtendedKeyUsagePurpose::OcspSigning => EkuSpec::OcspSigning,
		ExtendedKeyUsagePurpose::Other(v) => EkuSpec::Other(v.clone()),
	}
}

pub fn is_ca(c: IsCaSpec) -> IsCa {
	match c {
		IsCaSpec::NoCa => IsCa::NoCa,
		IsCaSpec::ExplicitNoCa => IsCa::ExplicitNoCa,
		IsCaSpec::CaUnconstrained => IsCa::Ca(BasicConstraints::Unconstrained),
		IsCaSpec::CaConstrained(n) => IsCa::Ca(BasicConstraints::Constrained(n)),
	}
}

pub fn cidr(c: &CidrSpec) -> Result<CidrSubnet, String> {
	Ok(match c {
		CidrSpec::Prefix { addr, prefix, ctor } => {
			let a = ip(&addr.0);
			match ctor {
				0 => CidrSubnet::from_addr_prefix(a, *prefix),
				1 => {
					if addr.0.len() == 4 {
						let mut x = [0u8; 4];
						x.copy_from_slice(&addr.0);
						CidrSubnet::from_v4_prefix(x, *prefix)
					} else {
						let mut x = [0u8; 16];
						x.copy_from_slice(&addr.0);
						CidrSubnet::from_v6_prefix(x, *prefix)
					}
				},
				_ => CidrSubnet::from_str(&format!("{a}/{prefix}"))
					.map_err(|_| format!("CidrSubnet::from_str rejected {a}/{prefix}"))?,
			}
		},
		CidrSpec::Raw { addr, mask } => {
			if addr.0.len() == 4 {
				let (mut a, mut m) = ([0u8; 4], [0u8; 4]);
				a.copy_from_slice(&addr.0);
				m.copy_from_slice(&mask.0);
				CidrSubnet::V4(a, m)
			} else {
				let (mut a, mut m) = ([0u8; 16], [0u8; 16]);
				a.copy_from_slice(&addr.0);
				m.copy_from_slice(&mask.0);
				CidrSubnet::V6(a, m)
			}
		},
	})
}

pub fn subtree(s: &SubtreeSpec) -> Result<GeneralSubtree, String> {
	Ok(match s {
		SubtreeSpec::Rfc822(t) => GeneralSubtree::Rfc822Name(t.clone()),
		SubtreeSpec::Dns(t) => GeneralSubtree::DnsName(t.clone()),
		SubtreeSpec::DirName(d) => GeneralSubtree::DirectoryName(dn(d).map_err(|e| e.to_string())?),
		SubtreeSpec::Ip(c) => GeneralSubtree::IpAddress(cidr(c)?),
	})
}

pub fn kid(k: &KidSpec) -> Result<KeyIdMethod, String> {
	Ok(match k {
		KidSpec::Pre(b) => KeyIdMethod::PreSpecified(b.0.clone()),
		#[cfg(feature = "crypto")]
		KidSpec::Sha256 => KeyIdMethod::Sha256,
		#[cfg(feature = "crypto")]
		KidSpec::Sha384 => KeyIdMethod::Sha384,
		#[cfg(feature = "crypto")]
		KidSpec::Sha512 => KeyIdMethod::Sha512,
		#[cfg(not(feature = "crypto"))]
		_ => return Err("hashed key identifiers need a crypto back end".into()),
	})
}

pub fn custom_ext(c: &CustomExtSpec) -> CustomExtension {
	let mut e = if c.acme {
		CustomExtension::new_acme_identifier(&c.content.0)
	} else {
		CustomExtension::from_oid_content(&c.oid, c.content.0.clone())
	};
	e.set_criticality(c.critical);
	e
}

pub fn cert_params(s: &CertSpec) -> Result<CertificateParams, String> {
	let mut p = CertificateParams::default();
	cert_params_onto(&mut p, s, false)?;
	Ok(p)
}

/// Turns an existing parameter object (whatever it held, whatever was done with it before) into
/// the one `s` describes, by assigning the public fields or - `in_place` - by editing the
/// collections and the name where they stand.
pub fn cert_params_onto(p: &mut CertificateParams, s: &CertSpec, in_place: bool) -> Result<(), String> {
	if in_place {
		let new = cert_params(s)?;
		p.not_before = new.not_before;
		p.not_after = new.not_after;
		p.serial_number = new.serial_number;
		p.subject_alt_names.clear();
		p.subject_alt_names.extend(new.subject_alt_names);
		let old_types: Vec<rcgen::DnType> = p.distinguished_name.iter().map(|(t, _)| t.clone()).collect();
		for t in old_types {
			p.distinguished_name.remove(t);
		}
		for (t, v) in new.distinguished_name.iter() {
			p.distinguished_name.push(t.clone(), v.clone());
		}
		p.is_ca = new.is_ca;
		p.key_usages.clear();
		p.key_usages.extend(new.key_usages);
		p.extended_key_usages.clear();
		p.extended_key_usages.extend(new.extended_key_usages);
		match (&mut p.name_constraints, new.name_constraints) {
			(Some(old), Some(n)) => {
				old.permitted_subtrees.clear();
				old.permitted_subtrees.extend(n.permitted_subtrees);
				old.excluded_subtrees.clear();
				old.excluded_subtrees.extend(n.excluded_subtrees);
			},
			(slot, n) => *slot = n,
		}
		p.crl_distribution_points.clear();
		p.crl_distribution_points.extend(new.crl_distribution_points);
		p.custom_extensions.clear();
		p.custom_extensions.extend(new.custom_extensions);
		p.use_authority_key_identifier_extension = new.use_authority_key_identifier_extension;
		p.key_identifier_method = new.key_identifier_method;
		return Ok(());
	}
	p.not_before = time(&s.not_before).ok_or("unrepresentable not_before")?;
	p.not_after = time(&s.not_after).ok_or("unrepresentable not_after")?;
	p.serial_number = s.serial.as_ref().map(|b| SerialNumber::from_slice(&b.0));
	p.subject_alt_names = s.sans.iter().map(san).collect::<Result<_, _>>().map_err(|e| format!("san: {e}"))?;
	p.distinguished_name = dn(&s.dn).map_err(|e| format!("dn: {e}"))?;
	p.is_ca = is_ca(s.is_ca);
	p.key_usages = s.key_usages.iter().map(|&i| KU_ALL[i as usize % 9]).collect();
	p.extended_key_usages = s.ekus.iter().map(eku).collect();
	p.name_constraints = match &s.name_constraints {
		None => None,
		Some(nc) => Some(NameConstraints {
			permitted_subtrees: nc.permitted.iter().map(subtree).collect::<Result<_, _>>()?,
			excluded_subtrees: nc.excluded.iter().map(subtree).collect::<Result<_, _>>()?,
		}),
	};
	p.crl_distribution_points = s
		.crl_dps
		.iter()
		.map(|u| CrlDistributionPoint { uris: u.clone() })
		.collect();
	p.custom_extensions = s.custom_exts.iter().map(custom_ext).collect();
	p.use_authority_key_identifier_extension = s.use_aki;
	p.key_identifier_method = kid(&s.kid)?;
	Ok(())
}

pub fn reason(r: ReasonSpec) -> RevocationReason {
	match r {
		ReasonSpec::Unspecified => RevocationReason::Unspecified,
		ReasonSpec::KeyCompromise => RevocationReason::KeyCompromise,
		ReasonSpec::CaCompromise => RevocationReason::CaCompromise,
		ReasonSpec::AffiliationChanged => RevocationReason::AffiliationChanged,
		ReasonSpec::Superseded => RevocationReason::Superseded,
		ReasonSpec::CessationOfOperation => RevocationReason::CessationOfOperation,
		ReasonSpec::CertificateHold => RevocationReason::CertificateHold,
		ReasonSpec::RemoveFromCrl => RevocationReason::RemoveFromCrl,
		ReasonSpec::PrivilegeWithdrawn => RevocationReason::PrivilegeWithdrawn,
		ReasonSpec::AaCompromise => RevocationReason::AaCompromise,
	}
}

pub fn crl_params(s: &CrlSpec) -> Result<CertificateRevocationListParams, String> {
	Ok(CertificateRevocationListParams {
		this_update: time(&s.this_update).ok_or("unrepresentable this_update")?,
		next_update: time(&s.next_update).ok_or("unrepresentable next_update")?,
		crl_number: SerialNumber::from_slice(&s.crl_number.0),
		issuing_distribution_point: s.idp.as_ref().map(|i| CrlIssuingDistributionPoint {
			distribution_point: CrlDistributionPoint { uris: i.uris.clone() },
			scope: i.scope.map(|sc| match sc {
				ScopeSpec::User => CrlScope::UserCertsOnly,
				ScopeSpec::Ca => CrlScope::CaCertsOnly,
			}),
		}),
		revoked_certs: s
			.revoked
			.iter()
			.map(|r| {
				Ok(RevokedCertParams {
					serial_number: SerialNumber::from_slice(&r.serial.0),
					revocation_time: time(&r.revocation_time).ok_or("unrepresentable revocation_time")?,
					reason_code: r.reason.map(reason),
					invalidity_date: match &r.invalidity_date {
						None => None,
						Some(t) => Some(time(t).ok_or("unrepresentable invalidity_date")?),
					},
				})
			})
			.collect::<Result<_, String>>()?,
		key_identifier_method: kid(&s.kid)?,
	})
}

/// `Attribute::oid` is `&'static [u64]`, so attribute types come from a fixed table.
pub const ATTR_OIDS: [&[u64]; 8] = [
	&[1, 2, 840, 113549, 1, 9, 7],        // challengePassword
	&[1, 2, 840, 113549, 1, 9, 2],        // unstructuredName
	&[1, 3, 6, 1, 4, 1, 311, 13, 2, 3],   // MS os version
	&[2, 5, 4, 3],                        // an attribute type that is also a DN type
	&[1, 2, 840, 113549, 1, 9, 15],       // sorts after extensionRequest (…9.14)
	&[1, 2, 840, 113549, 1, 9, 13],       // sorts before extensionRequest
	&[0, 9, 2342, 19200300, 100, 1, 25],  // starts with arc 0
	&[2, 999, 1],                         // joint-iso arc with large second component
];

pub fn attribute(a: &AttrSpec) -> Attribute {
	Attribute {
		oid: ATTR_OIDS[a.oid_idx as usize % ATTR_OIDS.len()],
		values: a.values.0.clone(),
	}
}
