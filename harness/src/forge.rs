//! Foreign artefacts: certificates and CSRs assembled with the harness's own DER encoder and
//! signed with OpenSSL, so that shapes rcgen itself never produces (multi-valued RDNs,
//! repeated attribute types, key/hash pairings, unsupported extensions) can be fed to rcgen's
//! importers. Every forged artefact is first shown to OpenSSL's own parser and verifier; only
//! what OpenSSL accepts counts as a legitimate foreign input.

use openssl::hash::MessageDigest;
use serde::{Deserialize, Serialize};

use crate::der::*;
use crate::keys;
use crate::spec::*;

#[derive(Clone, Debug, Serialize, Deserialize, PartialEq, Eq, Hash)]
pub struct FAttr {
	pub oid: Vec<u64>,
	pub kind: StrKind,
	pub text: String,
	/// content octets overriding the reference encoding of `text` (e.g. Latin-1 in a T61String)
	#[serde(default)]
	pub raw: Option<Hex>,
	/// content octets of the attribute type OID overriding `oid` (arcs beyond 64 bits)
	#[serde(default)]
	pub oid_raw: Option<Hex>,
}

/// RDNSequence with possibly multi-valued RDNs.
#[derive(Clone, Debug, Serialize, Deserialize, PartialEq, Eq, Hash, Default)]
pub struct FName(pub Vec<Vec<FAttr>>);

impl FName {
	pub fn from_dn(d: &DnSpec) -> FName {
		FName(d.effective().into_iter().map(|(t, v)| vec![FAttr { oid: t.oid(), kind: v.kind, text: v.text, raw: None, oid_raw: None }]).collect())
	}
	pub fn is_flat(&self) -> bool {
		self.0.iter().all(|r| r.len() == 1)
	}
	pub fn has_repeated_type(&self) -> bool {
		let oids: Vec<&Vec<u64>> = self.0.iter().flatten().map(|a| &a.oid).collect();
		(0..oids.len()).any(|i| oids[..i].contains(&oids[i]))
	}
	pub fn der(&self) -> Vec<u8> {
		let rdns: Vec<Vec<u8>> = self
			.0
			.iter()
			.map(|rdn| {
				let atvs: Vec<Vec<u8>> = rdn
					.iter()
					.map(|a| enc_seq(&[a.oid_raw.as_ref().map(|r| enc_tlv(0x06, &r.0)).unwrap_or_else(|| enc_oid(&a.oid)), enc_tlv(a.kind.tag() as u8, &a.raw.as_ref().map(|r| r.0.clone()).unwrap_or_else(|| a.kind.encode(&a.text)))]))
					.collect();
				enc_set_of(&atvs)
			})
			.collect();
		enc_seq(&rdns)
	}
}

pub fn enc_time(unix: i64) -> Vec<u8> {
	let days = unix.div_euclid(86400);
	let secs = unix.rem_euclid(86400);
	let (y, m, d) = civil_from_days(days);
	let (h, mi, s) = (secs / 3600, secs % 3600 / 60, secs % 60);
	if (1950..=2049).contains(&y) {
		enc_tlv(0x17, format!("{:02}{:02}{:02}{:02}{:02}{:02}Z", y % 100, m, d, h, mi, s).as_bytes())
	} else {
		enc_tlv(0x18, format!("{:04}{:02}{:02}{:02}{:02}{:02}Z", y, m, d, h, mi, s).as_bytes())
	}
}

pub fn enc_generalized(unix: i64) -> Vec<u8> {
	let days = unix.div_euclid(86400);
	let secs = unix.rem_euclid(86400);
	let (y, m, d) = civil_from_days(days);
	enc_tlv(0x18, format!("{:04}{:02}{:02}{:02}{:02}{:02}Z", y, m, d, secs / 3600, secs % 3600 / 60, secs % 60).as_bytes())
}

pub fn enc_bool(b: bool) -> Vec<u8> {
	vec![0x01, 0x01, if b { 0xff } else { 0x00 }]
}

pub fn enc_octets(b: &[u8]) -> Vec<u8> {
	enc_tlv(0x04, b)
}

pub fn enc_bits(bytes: &[u8], unused: u8) -> Vec<u8> {
	let mut c = vec![unused];
	c.extend_from_slice(bytes);
	enc_tlv(0x03, &c)
}

/// Positive INTEGER from magnitude bytes.
pub fn enc_uint_bytes(mag: &[u8]) -> Vec<u8> {
	let mut m = crate::model::strip_zeros(mag);
	if m.is_empty() {
		m.push(0);
	}
	if m[0] & 0x80 != 0 {
		m.insert(0, 0);
	}
	enc_tlv(0x02, &m)
}

pub fn enc_ext(oid: &[u64], critical: bool, value: &[u8]) -> Vec<u8> {
	let mut items = vec![enc_oid(oid)];
	if critical {
		items.push(enc_bool(true));
	}
	items.push(enc_octets(value));
	enc_seq(&items)
}

/// Minimal named-bit-list BIT STRING for a set of bit indices.
pub fn enc_named_bits(bits: &[u32]) -> Vec<u8> {
	match bits.iter().max() {
		None => enc_bits(&[], 0),
		Some(&hi) => {
			let nbytes = hi as usize / 8 + 1;
			let mut b = vec![0u8; nbytes];
			for &i in bits {
				b[i as usize / 8] |= 0x80 >> (i % 8);
			}
			enc_bits(&b, (7 - hi % 8) as u8)
		},
	}
}

pub fn enc_general_name_san(s: &SanSpec) -> Vec<u8> {
	match s {
		SanSpec::Rfc822(t) => enc_tlv(0x81, t.as_bytes()),
		SanSpec::Dns(t) => enc_tlv(0x82, t.as_bytes()),
		SanSpec::Uri(t) => enc_tlv(0x86, t.as_bytes()),
		SanSpec::Ip(b) => enc_tlv(0x87, &b.0),
		SanSpec::OtherName(oid, v) => {
			let inner = [enc_oid(oid), enc_tlv(0xa0, &enc_tlv(0x0c, v.as_bytes()))].concat();
			enc_tlv(0xa0, &inner)
		},
	}
}

pub fn enc_subtree(s: &SubtreeSpec) -> Vec<u8> {
	let base = match s {
		SubtreeSpec::Rfc822(t) => enc_tlv(0x81, t.as_bytes()),
		SubtreeSpec::Dns(t) => enc_tlv(0x82, t.as_bytes()),
		SubtreeSpec::DirName(d) => enc_tlv(0xa4, &FName::from_dn(d).der()),
		SubtreeSpec::Ip(c) => enc_tlv(0x87, &crate::model::cidr_bytes(c)),
	};
	enc_seq(&[base])
}

/// The standard extensions of a `CertSpec`, encoded by the harness (used for foreign CAs and
/// foreign requests). `ski`/`aki` are explicit values.
pub fn spec_extensions(spec: &CertSpec, ski: Option<&[u8]>, aki: Option<&[u8]>) -> Vec<Vec<u8>> {
	use crate::x509::*;
	let mut v = Vec::new();
	if let Some(a) = aki {
		v.push(enc_ext(OID_AKI, false, &enc_seq(&[enc_tlv(0x80, a)])));
	}
	if let Some(s) = ski {
		v.push(enc_ext(OID_SKI, false, &enc_octets(s)));
	}
	match spec.is_ca {
		IsCaSpec::NoCa => {},
		IsCaSpec::ExplicitNoCa => v.push(enc_ext(OID_BC, true, &enc_seq(&[]))),
		IsCaSpec::CaUnconstrained => v.push(enc_ext(OID_BC, true, &enc_seq(&[enc_bool(true)]))),
		IsCaSpec::CaConstrained(n) => v.push(enc_ext(OID_BC, true, &enc_seq(&[enc_bool(true), enc_uint(n as u64)]))),
	}
	if !spec.key_usages.is_empty() {
		let bits: Vec<u32> = spec.key_usages.iter().map(|&b| (b % 9) as u32).collect();
		v.push(enc_ext(OID_KU, true, &enc_named_bits(&bits)));
	}
	if !spec.ekus.is_empty() {
		let mut seen: Vec<Vec<u64>> = Vec::new();
		for e in &spec.ekus {
			if !seen.contains(&e.oid()) {
				seen.push(e.oid());
			}
		}
		v.push(enc_ext(OID_EKU, false, &enc_seq(&seen.iter().map(|o| enc_oid(o)).collect::<Vec<_>>())));
	}
	if !spec.sans.is_empty() {
		let names: Vec<Vec<u8>> = spec.sans.iter().map(enc_general_name_san).collect();
		v.push(enc_ext(OID_SAN, spec.dn.effective().is_empty(), &enc_seq(&names)));
	}
	if let Some(nc) = &spec.name_constraints {
		if !nc.permitted.is_empty() || !nc.excluded.is_empty() {
			let mut parts = Vec::new();
			if !nc.permitted.is_empty() {
				parts.push(enc_tlv(0xa0, &nc.permitted.iter().map(enc_subtree).collect::<Vec<_>>().concat()));
			}
			if !nc.excluded.is_empty() {
				parts.push(enc_tlv(0xa1, &nc.excluded.iter().map(enc_subtree).collect::<Vec<_>>().concat()));
			}
			v.push(enc_ext(OID_NC, true, &enc_seq(&parts)));
		}
	}
	for c in &spec.custom_exts {
		let content = if c.acme { crate::model::acme_content(&c.content.0) } else { c.content.0.clone() };
		v.push(enc_ext(&c.oid, c.critical, &content));
	}
	v
}

/// Digest used by a foreign signer; `None` for Ed25519.
#[derive(Clone, Copy, Debug, Serialize, Deserialize, PartialEq, Eq, Hash)]
pub enum FDigest {
	Sha256,
	Sha384,
	Sha512,
}

impl FDigest {
	pub fn md(self) -> MessageDigest {
		match self {
			FDigest::Sha256 => MessageDigest::sha256(),
			FDigest::Sha384 => MessageDigest::sha384(),
			FDigest::Sha512 => MessageDigest::sha512(),
		}
	}
}

/// Signature AlgorithmIdentifier for (key family, digest).
pub fn sig_alg_der(alg: KeyAlg, d: FDigest) -> Vec<u8> {
	let h = |s: &str| unhex(s).unwrap();
	match alg {
		KeyAlg::Ed25519 => h("300506032b6570"),
		KeyAlg::P256 | KeyAlg::P384 | KeyAlg::P521 => match d {
			FDigest::Sha256 => h("300a06082a8648ce3d040302"),
			FDigest::Sha384 => h("300a06082a8648ce3d040303"),
			FDigest::Sha512 => h("300a06082a8648ce3d040304"),
		},
		_ => match d {
			FDigest::Sha256 => h("300d06092a864886f70d01010b0500"),
			FDigest::Sha384 => h("300d06092a864886f70d01010c0500"),
			FDigest::Sha512 => h("300d06092a864886f70d01010d0500"),
		},
	}
}

fn sign_wrap(tbs: Vec<u8>, key: &KeySpec, d: FDigest) -> Result<Vec<u8>, String> {
	let fx = keys::fixture(key);
	let digest = if key.alg == KeyAlg::Ed25519 { None } else { Some(d.md()) };
	let sig = keys::openssl_sign(&fx.pkey, digest, &tbs)?;
	Ok(enc_seq(&[tbs, sig_alg_der(key.alg, d), enc_bits(&sig, 0)]))
}

pub struct ForgeCert<'a> {
	pub serial: &'a [u8],
	pub issuer: &'a FName,
	pub subject: &'a FName,
	pub not_before: i64,
	pub not_after: i64,
	pub subject_spki: &'a [u8],
	pub extensions: Vec<Vec<u8>>,
}

pub fn forge_cert(c: &ForgeCert<'_>, signer: &KeySpec, d: FDigest) -> Result<Vec<u8>, String> {
	let mut items = vec![
		enc_tlv(0xa0, &enc_uint(2)),
		enc_uint_bytes(c.serial),
		sig_alg_der(signer.alg, d),
		c.issuer.der(),
		enc_seq(&[enc_time(c.not_before), enc_time(c.not_after)]),
		c.subject.der(),
		c.subject_spki.to_vec(),
	];
	if !c.extensions.is_empty() {
		items.push(enc_tlv(0xa3, &enc_seq(&c.extensions)));
	} else {
		items[0] = enc_tlv(0xa0, &enc_uint(2));
	}
	sign_wrap(enc_seq(&items), signer, d)
}

pub struct ForgeCsr<'a> {
	pub subject: &'a FName,
	pub spki: &'a [u8],
	/// requested extensions (one extensionRequest attribute when non-empty)
	pub extensions: Vec<Vec<u8>>,
	/// further attributes: (oid, DER of the values SET)
	pub attributes: Vec<(Vec<u64>, Vec<u8>)>,
}

pub fn forge_csr(c: &ForgeCsr<'_>, signer: &KeySpec, d: FDigest) -> Result<Vec<u8>, String> {
	let mut attrs: Vec<Vec<u8>> = Vec::new();
	if !c.extensions.is_empty() {
		attrs.push(enc_seq(&[enc_oid(crate::x509::OID_EXT_REQ), enc_tlv(0x31, &enc_seq(&c.extensions))]));
	}
	for (oid, values) in &c.attributes {
		attrs.push(enc_seq(&[enc_oid(oid), values.clone()]));
	}
	let set = enc_set_of(&attrs);
	// [0] IMPLICIT replaces the SET tag
	let mut tagged = set.clone();
	tagged[0] = 0xa0;
	let cri = enc_seq(&[enc_uint(0), c.subject.der(), c.spki.to_vec(), tagged]);
	sign_wrap(cri, signer, d)
}

/// OpenSSL accepts the forged certificate (parses it and verifies its signature under `signer`).
pub fn openssl_accepts_cert(der: &[u8], signer: &KeySpec) -> bool {
	match openssl::x509::X509::from_der(der) {
		Ok(x) => {
			let pk = openssl::pkey::PKey::public_key_from_der(&keys::fixture(signer).spki).unwrap();
			let r = x.verify(&pk).unwrap_or(false);
			let _ = openssl::error::ErrorStack::get();
			r
		},
		Err(_) => false,
	}
}

pub fn openssl_accepts_csr(der: &[u8]) -> bool {
	match openssl::x509::X509Req::from_der(der) {
		Ok(x) => {
			let r = x.public_key().and_then(|pk| x.verify(&pk)).unwrap_or(false);
			let _ = openssl::error::ErrorStack::get();
			r
		},
		Err(_) => false,
	}
}
