//! Entry functions shared by the libFuzzer targets (harness/fuzz) and by `rv fuzz-replay`.
//! Each holds no state between calls and carries the property's oracle inside.

use crate::der::Lints;
use crate::keys;
use crate::mk;
use crate::spec::*;
use crate::x509::{self, ExtValue};

/// C10: every parsing entry point on arbitrary bytes; a panic is the failure.
pub fn c10_parse(data: &[u8]) -> Result<(), String> {
	if data.is_empty() {
		return Ok(());
	}
	if std::env::var_os("RV_FUZZ_REPLAY").is_none() && cfg!(fuzzing) {
		crate::props::c10::SKIP_KNOWN_TRIGGERS.store(true, std::sync::atomic::Ordering::Relaxed);
	}
	let sel = data[0];
	let bytes = &data[1..];
	// the text fed to the PEM entry points: the bytes themselves, or the bytes wrapped as PEM
	let labels = ["CERTIFICATE", "CERTIFICATE REQUEST", "PRIVATE KEY", "RSA PRIVATE KEY", "EC PRIVATE KEY", "PUBLIC KEY"];
	let text = if sel & 1 == 0 {
		String::from_utf8_lossy(bytes).to_string()
	} else {
		crate::pemstrict::encode(labels[(sel >> 1) as usize % labels.len()], bytes)
	};
	crate::props::c10::feed_all(bytes, &text, (sel >> 4) as usize).map(|_| ())
}

/// C06: acceptance implies the signature verifies over the CRI bytes under the reported key.
pub fn c06_csr(data: &[u8]) -> Result<(), String> {
	let r = crate::runner::no_panic(|| rcgen::CertificateSigningRequestParams::from_der(&data.to_vec().into()))?;
	if let Ok(p) = r {
		crate::props::c06::check_accepted_pub(data, &p)?;
	}
	Ok(())
}

/// C03/C17: whatever CA certificate import accepts must keep the chain guarantees: a leaf issued
/// from the imported parameters names the original subject byte for byte and points at its SKI.
pub fn c03_import(data: &[u8]) -> Result<(), String> {
	let r = crate::runner::no_panic(|| rcgen::CertificateParams::from_ca_cert_der(&data.to_vec().into()))?;
	let Ok(params) = r else { return Ok(()) };
	let l = Lints::new();
	// only inputs the independent decoder can read give a reference to compare with
	let Ok(orig) = x509::parse_cert(data, &l) else { return Ok(()) };
	// "a CA certificate": a byte string OpenSSL's parser takes for a certificate and whose names are
	// canonical DER (an overlong OID arc or a BER length inside the subject makes the input something
	// else than an X.509 certificate; what an import does with it is C10's subject, not this one's)
	if openssl::x509::X509::from_der(data).is_err() {
		let _ = openssl::error::ErrorStack::get();
		return Ok(());
	}
	if l.take().iter().any(|x| x.contains("subject") || x.contains("issuer")) {
		return Ok(());
	}
	// the same question asked of the two names alone, so that lints raised below the level that
	// knows which field it is reading (identifier and length octets) are seen as well
	let name_lints = Lints::new();
	for raw in [&orig.subject.raw, &orig.issuer.raw] {
		match crate::der::read_tlv(raw, &name_lints) {
			Ok((t, rest)) if rest.is_empty() => {
				if x509::parse_name(&t, &name_lints, "name").is_err() {
					return Ok(());
				}
			},
			_ => return Ok(()),
		}
	}
	if !name_lints.is_empty() {
		return Ok(());
	}
	let key = keys::make_key(&KeySpec { alg: KeyAlg::Ed25519, idx: 0, rsa_hash: RsaHash::Sha256, remote: !cfg!(feature = "crypto") })?;
	let issuer = match crate::runner::no_panic(|| params.self_signed(&key))? {
		Ok(c) => c,
		Err(_) => return Ok(()),
	};
	let mut leaf = CertSpec::minimal();
	leaf.use_aki = true;
	leaf.kid = KidSpec::Pre(Hex(vec![1]));
	let leaf_cert = match crate::runner::no_panic(|| mk::cert_params(&leaf).unwrap().signed_by(&key, &issuer, &key))? {
		Ok(c) => c,
		Err(_) => return Ok(()),
	};
	let lc = x509::parse_cert(leaf_cert.der(), &l).map_err(|e| format!("issued certificate does not decode: {e}"))?;
	if lc.issuer.raw != orig.subject.raw {
		return Err(format!(
			"issuer name of a certificate issued from the imported CA differs from the CA's subject: {} vs {}",
			crate::der::hex(&lc.issuer.raw),
			crate::der::hex(&orig.subject.raw)
		));
	}
	let ski = x509::find_ext(&orig.extensions, x509::OID_SKI).first().and_then(|e| match &e.value {
		ExtValue::Ski(s) => Some(s.clone()),
		_ => None,
	});
	if let Some(ski) = ski {
		let aki = x509::find_ext(&lc.extensions, x509::OID_AKI).first().and_then(|e| match &e.value {
			ExtValue::Aki { key_id, .. } => key_id.clone(),
			_ => None,
		});
		if aki.as_deref() != Some(ski.as_slice()) {
			return Err("AKI of the issued certificate differs from the imported CA's SKI".into());
		}
	}
	Ok(())
}

/// Writes a corpus of valid artefacts for the targets (deterministic for a seed).
pub fn write_corpus(dir: &str, seed: u64) -> Result<usize, String> {
	use crate::props::common::*;
	use proptest::strategy::{Strategy, ValueTree};
	use proptest::test_runner::{Config, RngAlgorithm, TestRng, TestRunner};
	let mut seed_bytes = [0u8; 32];
	seed_bytes[..8].copy_from_slice(&seed.to_le_bytes());
	let mut runner = TestRunner::new_with_rng(Config::default(), TestRng::from_seed(RngAlgorithm::ChaCha, &seed_bytes));
	let mut n = 0usize;
	let mut put = |target: &str, prefix: u8, bytes: &[u8]| -> Result<(), String> {
		let d = format!("{dir}/{target}");
		std::fs::create_dir_all(&d).map_err(|e| e.to_string())?;
		let mut v = Vec::with_capacity(bytes.len() + 1);
		if target == "c10_parse" {
			v.push(prefix);
		}
		v.extend_from_slice(bytes);
		std::fs::write(format!("{d}/seed-{n:04}"), v).map_err(|e| e.to_string())?;
		n += 1;
		Ok(())
	};
	for i in 0..40u8 {
		let c = cert_case(crate::props::c17::IMPORT_OPTS, true).new_tree(&mut runner).map_err(|e| e.to_string())?.current();
		if let Ok(b) = build_cert(&c) {
			put("c10_parse", i << 1, b.cert.der())?;
			put("c03_import", 0, b.cert.der())?;
			put("c10_parse", 1, b.cert.pem().as_bytes())?;
		}
		let f = crate::props::c17::foreign_ca().new_tree(&mut runner).map_err(|e| e.to_string())?.current();
		if let Ok(der) = crate::props::c17::forge_ca(&f) {
			put("c03_import", 0, &der)?;
			put("c10_parse", 0, &der)?;
		}
		let c = crate::props::c07::roundtrip_case().new_tree(&mut runner).map_err(|e| e.to_string())?.current();
		if let Ok((csr, _)) = build_csr(&c) {
			put("c06_csr", 0, csr.der())?;
			put("c10_parse", 2, csr.der())?;
		}
		let f = crate::props::c06::foreign_csr_strategy().new_tree(&mut runner).map_err(|e| e.to_string())?.current();
		if let Ok(der) = crate::props::c06::forge_foreign(&f) {
			put("c06_csr", 0, &der)?;
		}
	}
	// structure-aware seeds: unusual CA certificates and key documents
	for i in 0..60u8 {
		let o = crate::props::c10::odd_ca().new_tree(&mut runner).map_err(|e| e.to_string())?.current();
		if let Ok(der) = crate::props::c10::forge_odd_ca(&o) {
			put("c10_parse", i << 1, &der)?;
			put("c03_import", 0, &der)?;
		}
		let k = crate::props::c10::odd_key().new_tree(&mut runner).map_err(|e| e.to_string())?.current();
		if let Ok(der) = crate::props::c10::forge_odd_key(&k) {
			put("c10_parse", i << 1, &der)?;
		}
	}
	for alg in keys::available_algs() {
		for fx in &keys::fixtures().pools[&alg] {
			put("c10_parse", 4, &fx.pk8)?;
			if let Some(l) = &fx.legacy {
				put("c10_parse", 6, l)?;
			}
			put("c10_parse", 10, &fx.spki)?;
			put("c10_parse", 0, crate::pemstrict::encode("PRIVATE KEY", &fx.pk8).as_bytes())?;
		}
	}
	Ok(n)
}
