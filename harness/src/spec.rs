//! Plain serialisable data mirroring rcgen's public parameter types. Cases are generated as
//! `Spec` values, shrunk as such, written to replay files as JSON, and only then turned into
//! rcgen values (`mk.rs`) and into expectations (`model.rs`).

use serde::{Deserialize, Deserializer, Serialize, Serializer};

/// Byte string serialised as lowercase hex.
#[derive(Clone, PartialEq, Eq, Hash, Default, PartialOrd, Ord)]
pub struct Hex(pub Vec<u8>);

impl std::fmt::Debug for Hex {
	fn fmt(&self, f: &mut std::fmt::Formatter<'_>) -> std::fmt::Result {
		write!(f, "x\"{}\"", crate::der::hex(&self.0))
	}
}
impl Serialize for Hex {
	fn serialize<S: Serializer>(&self, s: S) -> Result<S::Ok, S::Error> {
		s.serialize_str(&crate::der::hex(&self.0))
	}
}
impl<'de> Deserialize<'de> for Hex {
	fn deserialize<D: Deserializer<'de>>(d: D) -> Result<Self, D::Error> {
		let s = String::deserialize(d)?;
		crate::der::unhex(&s).map(Hex).map_err(serde::de::Error::custom)
	}
}
impl From<Vec<u8>> for Hex {
	fn from(v: Vec<u8>) -> Self {
		Hex(v)
	}
}

/// An `OffsetDateTime`: the instant `unix` seconds + `nanos`, presented at UTC offset `offset`
/// (seconds east).
#[derive(Clone, Copy, Debug, PartialEq, Eq, Hash, Serialize, Deserialize)]
pub struct TimeSpec {
	pub unix: i64,
	pub nanos: u32,
	pub offset: i32,
}

#[derive(Clone, Copy, Debug, PartialEq, Eq, Hash, Serialize, Deserialize)]
pub enum StrKind {
	Utf8,
	Printable,
	Ia5,
	Teletex,
	Bmp,
	Universal,
}

pub const ALL_STR_KINDS: [StrKind; 6] = [
	StrKind::Utf8,
	StrKind::Printable,
	StrKind::Ia5,
	StrKind::Teletex,
	StrKind::Bmp,
	StrKind::Universal,
];

impl StrKind {
	/// Universal tag number of the ASN.1 type.
	pub fn tag(self) -> u32 {
		match self {
			StrKind::Utf8 => 12,
			StrKind::Printable => 19,
			StrKind::Ia5 => 22,
			StrKind::Teletex => 20,
			StrKind::Bmp => 30,
			StrKind::Universal => 28,
		}
	}
	/// Reference alphabet predicate, transcribed from the property text of C13.
	pub fn admits(self, c: char) -> bool {
		let u = c as u32;
		match self {
			StrKind::Utf8 | StrKind::Universal => true,
			StrKind::Printable => {
				c.is_ascii_alphanumeric() || " '()+,-./:=?".contains(c)
			},
			StrKind::Ia5 => u <= 0x7f,
			StrKind::Teletex => (0x20..=0x7f).contains(&u),
			StrKind::Bmp => u <= 0xfffe,
		}
	}
	/// Reference transfer encoding.
	pub fn encode(self, s: &str) -> Vec<u8> {
		match self {
			StrKind::Bmp => s.encode_utf16().flat_map(|u| u.to_be_bytes()).collect(),
			StrKind::Universal => s.chars().flat_map(|c| (c as u32).to_be_bytes()).collect(),
			_ => s.as_bytes().to_vec(),
		}
	}
}

#[derive(Clone, Debug, PartialEq, Eq, Hash, Serialize, Deserialize)]
pub struct DnValueSpec {
	pub kind: StrKind,
	pub text: String,
	/// the text may lie outside the kind's alphabet: the value is *offered* to the constructor and
	/// the attribute is left out when the constructor refuses it (as the reference alphabet says it must)
	#[serde(default)]
	pub attempt: bool,
}

impl DnValueSpec {
	pub fn new(kind: StrKind, text: impl Into<String>) -> Self {
		DnValueSpec { kind, text: text.into(), attempt: false }
	}
	/// Does the reference alphabet admit the text?
	pub fn admitted(&self) -> bool {
		self.text.chars().all(|c| self.kind.admits(c))
	}
}

#[derive(Clone, Debug, PartialEq, Eq, Hash, Serialize, Deserialize)]
pub enum DnTypeSpec {
	Country,
	Locality,
	State,
	Org,
	OrgUnit,
	CommonName,
	Custom(Vec<u64>),
}

impl DnTypeSpec {
	pub fn oid(&self) -> Vec<u64> {
		match self {
			DnTypeSpec::Country => vec![2, 5, 4, 6],
			DnTypeSpec::Locality => vec![2, 5, 4, 7],
			DnTypeSpec::State => vec![2, 5, 4, 8],
			DnTypeSpec::Org => vec![2, 5, 4, 10],
			DnTypeSpec::OrgUnit => vec![2, 5, 4, 11],
			DnTypeSpec::CommonName => vec![2, 5, 4, 3],
			DnTypeSpec::Custom(v) => v.clone(),
		}
	}
}

/// A distinguished name as the list of `push` calls that build it.
#[derive(Clone, Debug, PartialEq, Eq, Hash, Serialize, Deserialize, Default)]
pub struct DnSpec(pub Vec<(DnTypeSpec, DnValueSpec)>);

impl DnSpec {
	/// Reference semantics of a push sequence: insertion-ordered map with replacement.
	pub fn effective(&self) -> Vec<(DnTypeSpec, DnValueSpec)> {
		let mut out: Vec<(DnTypeSpec, DnValueSpec)> = Vec::new();
		for (t, v) in &self.0 {
			if v.attempt && !v.admitted() {
				continue; // the constructor must refuse it, so it never gets pushed
			}
			if let Some(e) = out.iter_mut().find(|(t2, _)| t2 == t) {
				e.1 = v.clone();
			} else {
				out.push((t.clone(), v.clone()));
			}
		}
		out
	}
}

#[derive(Clone, Debug, PartialEq, Eq, Hash, Serialize, Deserialize)]
pub enum SanSpec {
	Rfc822(String),
	Dns(String),
	Uri(String),
	Ip(Hex),
	OtherName(Vec<u64>, String),
}

#[derive(Clone, Copy, Debug, PartialEq, Eq, Hash, Serialize, Deserialize)]
pub enum IsCaSpec {
	NoCa,
	ExplicitNoCa,
	CaUnconstrained,
	CaConstrained(u8),
}

#[derive(Clone, Debug, PartialEq, Eq, Hash, Serialize, Deserialize)]
pub enum EkuSpec {
	Any,
	ServerAuth,
	ClientAuth,
	CodeSigning,
	EmailProtection,
	TimeStamping,
	OcspSigning,
	Other(Vec<u64>),
}

impl EkuSpec {
	pub fn oid(&self) -> Vec<u64> {
		match self {
			EkuSpec::Any => vec![2, 5, 29, 37, 0],
			EkuSpec::ServerAuth => vec![1, 3, 6, 1, 5, 5, 7, 3, 1],
			EkuSpec::ClientAuth => vec![1, 3, 6, 1, 5, 5, 7, 3, 2],
			EkuSpec::CodeSigning => vec![1, 3, 6, 1, 5, 5, 7, 3, 3],
			EkuSpec::EmailProtection => vec![1, 3, 6, 1, 5, 5, 7, 3, 4],
			EkuSpec::TimeStamping => vec![1, 3, 6, 1, 5, 5, 7, 3, 8],
			EkuSpec::OcspSigning => vec![1, 3, 6, 1, 5, 5, 7, 3, 9],
			EkuSpec::Other(v) => v.clone(),
		}
	}
	pub fn is_standard(&self) -> bool {
		!matches!(self, EkuSpec::Other(_))
	}
}

/// How a CIDR subnet is constructed through the public API.
#[derive(Clone, Debug, PartialEq, Eq, Hash, Serialize, Deserialize)]
pub enum CidrSpec {
	/// `from_addr_prefix` (ctor 0), `from_v4_prefix`/`from_v6_prefix` (ctor 1), `FromStr` (ctor 2)
	Prefix { addr: Hex, prefix: u8, ctor: u8 },
	/// the public enum variants `V4(addr, mask)` / `V6(addr, mask)`
	Raw { addr: Hex, mask: Hex },
}

#[derive(Clone, Debug, PartialEq, Eq, Hash, Serialize, Deserialize)]
pub enum SubtreeSpec {
	Rfc822(String),
	Dns(String),
	DirName(DnSpec),
	Ip(CidrSpec),
}

#[derive(Clone, Debug, PartialEq, Eq, Hash, Serialize, Deserialize, Default)]
pub struct NcSpec {
	pub permitted: Vec<SubtreeSpec>,
	pub excluded: Vec<SubtreeSpec>,
}

#[derive(Clone, Debug, PartialEq, Eq, Hash, Serialize, Deserialize)]
pub struct CustomExtSpec {
	pub oid: Vec<u64>,
	pub critical: bool,
	pub content: Hex,
	/// built through `new_acme_identifier` (content = the 32-byte digest) instead of
	/// `from_oid_content`
	pub acme: bool,
}

#[derive(Clone, Debug, PartialEq, Eq, Hash, Serialize, Deserialize)]
pub enum KidSpec {
	Sha256,
	Sha384,
	Sha512,
	Pre(Hex),
}

/// Key usage purposes by bit index 0..=8 (digitalSignature .. decipherOnly).
pub type KuBit = u8;

#[derive(Clone, Debug, PartialEq, Eq, Hash, Serialize, Deserialize)]
pub struct CertSpec {
	pub not_before: TimeSpec,
	pub not_after: TimeSpec,
	pub serial: Option<Hex>,
	pub sans: Vec<SanSpec>,
	pub dn: DnSpec,
	pub is_ca: IsCaSpec,
	pub key_usages: Vec<KuBit>,
	pub ekus: Vec<EkuSpec>,
	pub name_constraints: Option<NcSpec>,
	pub crl_dps: Vec<Vec<String>>,
	pub custom_exts: Vec<CustomExtSpec>,
	pub use_aki: bool,
	pub kid: KidSpec,
}

impl CertSpec {
	pub fn minimal() -> Self {
		CertSpec {
			not_before: TimeSpec { unix: 157766400, nanos: 0, offset: 0 },
			not_after: TimeSpec { unix: 67090204800, nanos: 0, offset: 0 },
			// the crypto-less build of rcgen can derive neither a serial nor a hashed key identifier
			serial: if cfg!(feature = "crypto") { None } else { Some(Hex(vec![0x0a])) },
			sans: vec![],
			dn: DnSpec(vec![(
				DnTypeSpec::CommonName,
				DnValueSpec::new(StrKind::Utf8, "rv"),
			)]),
			is_ca: IsCaSpec::NoCa,
			key_usages: vec![],
			ekus: vec![],
			name_constraints: None,
			crl_dps: vec![],
			custom_exts: vec![],
			use_aki: false,
			kid: if cfg!(feature = "crypto") { KidSpec::Sha256 } else { KidSpec::Pre(Hex(vec![1, 2, 3, 4])) },
		}
	}
	/// Number of extension-bearing fields that are set (used for the sparsity classes).
	pub fn ext_fields_set(&self) -> Vec<&'static str> {
		let mut v = Vec::new();
		if self.use_aki {
			v.push("aki");
		}
		if !self.sans.is_empty() {
			v.push("san");
		}
		if !self.key_usages.is_empty() {
			v.push("ku");
		}
		if !self.ekus.is_empty() {
			v.push("eku");
		}
		if self.name_constraints.as_ref().map_or(false, |n| !n.permitted.is_empty() || !n.excluded.is_empty()) {
			v.push("nc");
		}
		if !self.crl_dps.is_empty() {
			v.push("crldp");
		}
		if self.is_ca != IsCaSpec::NoCa {
			v.push("isca");
		}
		if !self.custom_exts.is_empty() {
			v.push("custom");
		}
		v
	}
}

/// Key algorithm families of the fixture keys.
#[derive(Clone, Copy, Debug, PartialEq, Eq, Hash, Serialize, Deserialize, PartialOrd, Ord)]
pub enum KeyAlg {
	P256,
	P384,
	P521,
	Ed25519,
	Rsa2048,
	Rsa3072,
	Rsa4096,
	/// above ring's limit for private keys (4096 bits); aws-lc-rs only
	Rsa6144,
}

#[derive(Clone, Copy, Debug, PartialEq, Eq, Hash, Serialize, Deserialize, PartialOrd, Ord)]
pub enum RsaHash {
	Sha256,
	Sha384,
	Sha512,
}

/// Reference to a committed fixture key plus how it is held.
#[derive(Clone, Copy, Debug, PartialEq, Eq, Hash, Serialize, Deserialize)]
pub struct KeySpec {
	pub alg: KeyAlg,
	/// index into the fixture pool of that algorithm (taken modulo the pool size)
	pub idx: u8,
	/// hash for RSA keys (ignored otherwise)
	pub rsa_hash: RsaHash,
	/// wrap in a `RemoteKeyPair` implemented by the harness
	pub remote: bool,
}

impl KeySpec {
	pub fn is_rsa(&self) -> bool {
		matches!(self.alg, KeyAlg::Rsa2048 | KeyAlg::Rsa3072 | KeyAlg::Rsa4096 | KeyAlg::Rsa6144)
	}
	pub fn label(&self) -> String {
		if self.is_rsa() {
			format!("{:?}-{:?}{}", self.alg, self.rsa_hash, if self.remote { "-remote" } else { "" })
		} else {
			format!("{:?}{}", self.alg, if self.remote { "-remote" } else { "" })
		}
	}
}

#[derive(Clone, Copy, Debug, PartialEq, Eq, Hash, Serialize, Deserialize)]
pub enum ReasonSpec {
	Unspecified,
	KeyCompromise,
	CaCompromise,
	AffiliationChanged,
	Superseded,
	CessationOfOperation,
	CertificateHold,
	RemoveFromCrl,
	PrivilegeWithdrawn,
	AaCompromise,
}

impl ReasonSpec {
	pub const ALL: [ReasonSpec; 10] = [
		ReasonSpec::Unspecified,
		ReasonSpec::KeyCompromise,
		ReasonSpec::CaCompromise,
		ReasonSpec::AffiliationChanged,
		ReasonSpec::Superseded,
		ReasonSpec::CessationOfOperation,
		ReasonSpec::CertificateHold,
		ReasonSpec::RemoveFromCrl,
		ReasonSpec::PrivilegeWithdrawn,
		ReasonSpec::AaCompromise,
	];
	/// RFC 5280 §5.3.1 code
	pub fn code(self) -> u64 {
		match self {
			ReasonSpec::Unspecified => 0,
			ReasonSpec::KeyCompromise => 1,
			ReasonSpec::CaCompromise => 2,
			ReasonSpec::AffiliationChanged => 3,
			ReasonSpec::Superseded => 4,
			ReasonSpec::CessationOfOperation => 5,
			ReasonSpec::CertificateHold => 6,
			ReasonSpec::RemoveFromCrl => 8,
			ReasonSpec::PrivilegeWithdrawn => 9,
			ReasonSpec::AaCompromise => 10,
		}
	}
}

#[derive(Clone, Debug, PartialEq, Eq, Hash, Serialize, Deserialize)]
pub struct RevokedSpec {
	pub serial: Hex,
	pub revocation_time: TimeSpec,
	pub reason: Option<ReasonSpec>,
	pub invalidity_date: Option<TimeSpec>,
}

#[derive(Clone, Copy, Debug, PartialEq, Eq, Hash, Serialize, Deserialize)]
pub enum ScopeSpec {
	User,
	Ca,
}

#[derive(Clone, Debug, PartialEq, Eq, Hash, Serialize, Deserialize)]
pub struct IdpSpec {
	pub uris: Vec<String>,
	pub scope: Option<ScopeSpec>,
}

#[derive(Clone, Debug, PartialEq, Eq, Hash, Serialize, Deserialize)]
pub struct CrlSpec {
	pub this_update: TimeSpec,
	pub next_update: TimeSpec,
	pub crl_number: Hex,
	pub idp: Option<IdpSpec>,
	pub revoked: Vec<RevokedSpec>,
	pub kid: KidSpec,
}

#[derive(Clone, Debug, PartialEq, Eq, Hash, Serialize, Deserialize)]
pub struct AttrSpec {
	/// index into the static OID table in mk.rs
	pub oid_idx: u8,
	/// DER of the `values` SET
	pub values: Hex,
}
