//! `rv` — verification harness library (shared by the `rv` binary and the fuzz targets).

pub mod der;
pub mod findings;
pub mod forge;
pub mod fuzzing;
pub mod gen;
pub mod keys;
pub mod mk;
pub mod model;
pub mod pemstrict;
pub mod props;
pub mod runner;
pub mod spec;
pub mod validate;
pub mod x509;
