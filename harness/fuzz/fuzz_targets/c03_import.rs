#![no_main]
use libfuzzer_sys::fuzz_target;

fuzz_target!(|data: &[u8]| {
	if let Err(e) = rv::fuzzing::c03_import(data) {
		// the semantic oracle failed: make libFuzzer save the input
		eprintln!("ORACLE FAILURE (c03_import): {e}");
		std::process::abort();
	}
});
