#![no_main]
use libfuzzer_sys::fuzz_target;

fuzz_target!(|data: &[u8]| {
	if let Err(e) = rv::fuzzing::c10_parse(data) {
		// the semantic oracle failed: make libFuzzer save the input
		eprintln!("ORACLE FAILURE (c10_parse): {e}");
		std::process::abort();
	}
});
